"""E-proto, part 3: C08 (byte streams, truncation, segmentation, junk
invariance) in batch mode, and C17 (reload vs. fresh start)."""
import fcntl
import os
import shutil
import struct
import subprocess
import termios
import threading
import time

from hypothesis import strategies as st

import daemon as dm
import eng_proto as ep
import eng_proto2 as ep2
import proto
import vcommon as vc
from hyprun import CaseResult

make_context = ep.make_context
close_context = ep.close_context
V = ep2.V
HANG_S = dm.IO_TIMEOUT


# ===========================================================================
# batch runner

def run_batch(conf_text, data, workdir, chunks=None, binary=None):
    """Write `data` (whole, or in forced read chunks), close stdin, collect
    everything.  -> dict(rc, out(list of str), err, hang)"""
    os.makedirs(workdir, exist_ok=True)
    conf_path = os.path.join(workdir, "iauthd.conf")
    with open(conf_path, "w", encoding="latin-1") as fh:
        fh.write(conf_text)
    binary = binary or os.path.join(vc.build_daemon(), "iauthd-c")
    errp = os.path.join(workdir, "stderr.txt")
    with open(errp, "wb") as errf:
        p = subprocess.Popen([binary, "-n", "-f", conf_path], stdin=subprocess.PIPE, stdout=subprocess.PIPE,
                             stderr=errf, cwd=workdir, env=dm.san_env(detect_leaks=False), bufsize=0)
    outbuf = []

    def reader():
        while True:
            b = os.read(p.stdout.fileno(), 65536)
            if not b:
                break
            outbuf.append(b)
    th = threading.Thread(target=reader, daemon=True)
    th.start()
    hang = False
    try:
        # wait for the banner so that input is never processed before start-up
        t0 = time.time()
        while not any(b"V :" in b for b in outbuf):
            if p.poll() is not None or time.time() - t0 > HANG_S:
                break
            time.sleep(0.0005)
        pieces = []
        if chunks:
            pos = 0
            for c in chunks:
                if pos >= len(data):
                    break
                pieces.append(data[pos:pos + c])
                pos += c
            if pos < len(data):
                pieces.append(data[pos:])
        else:
            pieces = [data]
        fd = p.stdin.fileno()
        for piece in pieces:
            try:
                os.write(fd, piece) if len(piece) <= 32768 else p.stdin.write(piece)
            except (BrokenPipeError, OSError):
                break
            if chunks:
                t0 = time.time()
                while time.time() - t0 < HANG_S:
                    n = struct.unpack("i", fcntl.ioctl(fd, termios.FIONREAD, struct.pack("i", 0)))[0]
                    if n == 0 or p.poll() is not None:
                        break
                    time.sleep(0.0002)
                time.sleep(0.0003)
        try:
            p.stdin.close()
        except OSError:
            pass
        try:
            rc = p.wait(timeout=HANG_S)
        except subprocess.TimeoutExpired:
            hang = True
            p.kill()
            rc = p.wait()
        th.join(timeout=5)
    finally:
        if p.poll() is None:
            p.kill()
            p.wait()
        try:
            p.stdout.close()
        except OSError:
            pass
    with open(errp, "rb") as fh:
        err = fh.read().decode("latin-1")
    out = b"".join(outbuf).decode("latin-1").split("\n")
    if out and out[-1] == "":
        out.pop()
    return {"rc": rc, "out": out, "err": err, "hang": hang}


def mask(lines):
    o = []
    for ln in lines:
        if ln.startswith("S class :"):
            o.append("S class :<timing masked>")
        else:
            o.append(ln)
    return o


# ===========================================================================
# C08 generators

CMD_LETTERS = "CDNdPUunHTEMXx?"
JUNK_LETTERS = "ABFGIJKLOQRSVWYZabcefghijklmopqrstvwyz0123456789#@*"


@st.composite
def wellformed_lines(draw, tier):
    """A well-formed history rendered to lines with a generator-side serial count."""
    base = draw(ep.history_s("C08", tier, max_clients=3, maxlen=8))
    spec = proto.Spec(proto.Conf(base["conf"]), "ARUW")
    lines = []
    for i, ev in enumerate(base["events"]):
        ln = ep.concretize(ev, spec)
        spec.feed_input(i, ln)
        lines.append(ln)
    return base["conf"], lines


def drop_params(line):
    toks = line.split(" ")
    outs = []
    for k in range(1, len(toks)):
        outs.append(" ".join(toks[:k]))
    return outs


@st.composite
def hostile_line(draw, good):
    k = draw(st.integers(0, 13))
    if k <= 2 and good:
        cands = drop_params(draw(st.sampled_from(good)))
        if cands:
            return draw(st.sampled_from(cands))
    if k == 11 and good:
        # a well-formed line whose last parameter is stretched far beyond the protocol's 512 bytes
        cands = [l for l in good if " :" in l] or good
        return draw(st.sampled_from(cands)) + draw(st.sampled_from(["x", "A b ", "\xe9"])) * draw(st.sampled_from([480, 600, 1000, 1024, 1100, 2000, 5000]))
    if k == 12:
        # announcements whose address fields use every other notation the address parser knows
        a = ["10.0.0.0/8", "10.*", "10.1.*", "2001:db8::/32", "2001:db8::/128", "1:2:*", "1::/0", "*", "***", "1.2.3.4/33", "1::2::3", "1:2:3:4:5:6:7:8:9",
             "1:2:3:4:5:6:7:1.2.3.4", "1:2:3:4:5:6:1.2.3.4", "fe80::1/64", "0::ffff:10.0.0.0/104", "1.2.3/24", "1.2/16", "1/8", "0::/129", "1:2:3:4:5:6:7:8/127",
             "1.2.3.4.5", "256.1.1.1", "1..2", "0x10.1.1.1", "1:::2", "12345::", "g::1", "1.2.3.4:80", "[::1]", "::1"]
        x = draw(st.sampled_from(a))
        y = draw(st.sampled_from(a + ["127.0.0.1"] * 10))
        return draw(st.sampled_from(["%s C %s 1000 %s 6667", "%s C %s 1000 %s 6667", "%s C %s 65536 %s -1"])) % (draw(st.sampled_from(["5", "6", "900"])), x, y) if draw(st.booleans()) \
            else "%s C %s 1000 %s 6667" % (draw(st.sampled_from(["5", "6"])), y, x)
    if k == 3:
        return draw(st.sampled_from(["", " ", "\t", "5", "5 ", "-1", "   7   ", "-1 ", "0", " 0 ", "+", "-", "5\t", "\x0b5 N h"]))
    if k == 4:
        n = draw(st.sampled_from([600, 1023, 1024, 1025, 4095, 4096, 4097, 9000, 65000]))
        pre = draw(st.sampled_from(["5 N ", "5 n ", "5 U u :", "5 P :", "-1 X svc 5_1 :OK ", "5 u ", "5 C ", "", "5 P :+x "]))
        return pre + draw(st.sampled_from(["a", "A:", " x", "\xff"])) * n
    if k == 5:
        return draw(st.sampled_from(["5 U ", "5 C ", "-1 X ", "5 N "])) + " ".join("p%d" % i for i in range(draw(st.integers(14, 40))))
    if k == 6:
        return draw(st.text(st.characters(min_codepoint=0, max_codepoint=255, blacklist_characters="\n"), min_size=0, max_size=40))
    if k == 7:
        return draw(st.sampled_from(["99999999999999999999 N x", "-99999999999999999999 D", "2147483648 C 1.2.3.4 1 1.2.3.4 2",
                                     "-2147483649 C 1.2.3.4 1 1.2.3.4 2", "abc C 1.2.3.4 1 1.2.3.4 2", "0x10 N h", "+5 N h", "5.5 N h",
                                     "-1 C 1.2.3.4 1 1.2.3.4 2", "4294967301 N h", "C 1.2.3.4 1 1.2.3.4 2"]))
    if k == 8:
        return draw(st.sampled_from(["-1 ? config", "-1 ? stats", "-1 ? stats2", "-1 ?", "-1 ? bogus", "5 ? stats"]))
    if k == 9:
        return draw(st.sampled_from(good or ["5 N h"])) + draw(st.sampled_from(["\r", "\r\r", " \r", "\x00tail"]))
    if k == 10:
        return draw(st.sampled_from(["5 C bad.addr.text 1 2 3", "5 C 1.2.3.4.5 1 1:2 2", "5 C ::: 1 ::: 2", "5 C 1.2.3.4 99999999999 1.2.3.4 -5",
                                     "5 C * 1 * 2", "5 C 1.2.3.4/8 1 ::/0 2", "-1 X svc zz_zz :OK", "-1 X svc 5_1", "-1 x svc",
                                     "5 X alpha.ex 5_1 :OK a", "5 ! timeout", "5 !", "-1 ! timeout", "5 E", "5 M", "5 T extra args",
                                     "5 D extra", "5 H extra", "5 d extra"]))
    letter = draw(st.sampled_from(JUNK_LETTERS))
    return "%s %s%s" % (draw(st.sampled_from(["5", "-1", "0", "777"])), letter, draw(st.sampled_from(["", " a", " a :b c", "x y"])))


@st.composite
def c08_total_s(draw, tier):
    conf, good = draw(wellformed_lines(tier))
    lines = list(good)
    for _ in range(draw(st.integers(1, 8))):
        lines.insert(draw(st.integers(0, len(lines))), draw(hostile_line(good)))
    eols = [draw(st.sampled_from(["\n", "\n", "\n", "\r\n"])) for _ in lines]
    data_len = sum(len(l) + len(e) for l, e in zip(lines, eols))
    cut = draw(st.integers(0, data_len)) if draw(st.integers(0, 2)) == 0 else None
    chunks = draw(st.lists(st.sampled_from([1, 2, 3, 5, 7, 16, 33, 100, 1000, 4095, 4096, 4097]), min_size=1, max_size=12))
    return {"mode": "total", "conf": conf, "lines": lines, "eols": eols, "cut": cut, "chunks": chunks}


JUNK_IDS = ["900", "901", "977", "2000000000"]


def c_int(text):
    """The client id the daemon reads from the start of a line (strtol, base 10)."""
    return proto.parse_line(text + " x")[0]


@st.composite
def junk_line(draw, live_ids):
    k = draw(st.integers(0, 8))
    # (ids that no well-formed line of this stream uses: a scenario may announce a client under one of the usual junk ids)
    junk_ids = [j for j in JUNK_IDS if int(j) not in live_ids] or ["900900"]
    jid = draw(st.sampled_from(junk_ids))
    anyid = draw(st.sampled_from(junk_ids + [str(i) for i in live_ids] + ["-1"]))
    if k == 8:
        # one over-long junk line: a no-op head, a long run of blanks (skipped by the tokenizer) and a tail that
        # would be a meaningful line of its own if the daemon ever lost track of where the line began
        head = draw(st.sampled_from(["-1 E", "-1 M", "%s N" % jid, "%s u" % jid, "%s Q" % anyid, "-1 E type"]))
        lid = draw(st.sampled_from([str(i) for i in live_ids] or ["900"]))
        tail = draw(st.sampled_from(["%s D" % lid, "%s T" % lid, "%s H" % lid, "%s C 9.9.9.9 9 127.0.0.1 6667" % lid, "%s P :+x! a b" % lid,
                                     "-1 X alpha.ex %x_1 :NO go away" % int(lid), "%s N other.host" % lid]))
        if draw(st.integers(0, 2)) == 0:
            # ... or a bare CR (no LF after it) in the middle of the line: only LF or CR LF end a line
            return head + draw(st.sampled_from([" :some text", "", " a b", " :x" * 40])) + draw(st.sampled_from(["\r", "\r\r", " \r", "\r "])) + tail
        fill = draw(st.sampled_from([" ", " ", "\t", " \t"])) * draw(st.sampled_from([600, 4090, 4100, 8190, 8200, 9000, 12300, 16500, 40000]))
        return head + " " + fill + tail
    if k == 0 and live_ids and draw(st.integers(0, 3)) == 0:
        # ids are decimal: "010" is client ten and "0x8" is client 0, whatever they would be in octal or hex
        lid = draw(st.sampled_from(sorted(live_ids)))
        alias = [t for t in ("0%o" % abs(lid), "0x%x" % abs(lid), "0%d" % abs(lid) if False else "0X%X" % abs(lid))]
        alias = [t for t in alias if c_int(t) not in live_ids and c_int(t) != -1]
        if alias:
            return "%s %s" % (draw(st.sampled_from(alias)), draw(st.sampled_from(["D", "T", "H", "N other.host", "P :+x! a b"])))
    if k == 0:   # unknown id, any non-C command
        c = draw(st.sampled_from("DNdPUunHTEMXx?!"))
        return "%s %s%s" % (jid, c, draw(st.sampled_from(["", " a", " a :b c", " a b c d e"])))
    if k == 1:   # unknown command letter, any id
        return "%s %s%s" % (anyid, draw(st.sampled_from(JUNK_LETTERS)), draw(st.sampled_from(["", " a", " a :b c"])))
    if k == 2:   # too few parameters
        return draw(st.sampled_from(["%s C" % anyid, "%s C 1.2.3.4" % anyid, "%s C 1.2.3.4 5 6.7.8.9" % anyid, "-1 X", "-1 X alpha.ex",
                                     "-1 X alpha.ex 5_1", "-1 x", "-1 x alpha.ex 5_1", "-1 E", "-1 E one", "-1 M", "-1 M srv", "-1 ?"]))
    if k == 3:   # malformed / unroutable replies
        return "-1 X %s %s :%s" % (draw(st.sampled_from(["alpha.ex", "nobody.ex", "Beta.ex"])),
                                   draw(st.sampled_from(["zz_1", "5", "5_", "_", "5_1x", "900_1", "5-1", "ffffff_ffffff"])),
                                   draw(st.sampled_from(["OK", "OK acct", "NO go away", "MORE x", "AGAIN y"])))
    if k == 4:
        return draw(st.sampled_from(["", "", " ", "\t", "   "]))
    if k == 5:   # server-level no-ops and garbage that only yields a '>' notice
        return draw(st.sampled_from(["-1 D", "-1 N host", "-1 d", "-1 P :pw", "-1 U a :b", "-1 u x", "-1 n x", "-1 H", "-1 T",
                                     "-1 E oops :I am 100% sure %s%s%n %d this is an error", "-1 M irc%s.example.org %n",
                                     "-1 M irc.example.org 1024", "-1 E type :info text", "%s E type :info" % anyid]))
    if k == 6:   # data commands without their parameter, for a live id
        lid = draw(st.sampled_from([str(i) for i in live_ids] or ["900"]))
        return "%s %s" % (lid, draw(st.sampled_from(["N", "n", "P", "U", "U onlyuser", "N ", "P "])))
    return "%s" % draw(st.sampled_from(junk_ids + ["5", "-1", "0"]))   # id only


@st.composite
def c08_junk_s(draw, tier):
    conf, good = draw(wellformed_lines(tier))
    live = sorted({int(l.split(" ")[0]) for l in good if " C " in l[:14]})
    n = draw(st.integers(1, 6))
    ins = [[draw(st.integers(0, len(good))), draw(junk_line(live))] for _ in range(n)]
    xs = [i for i, l in enumerate(good) if l.startswith("-1 X ") and " :" in l]
    if xs and draw(st.integers(0, 2)) == 0:
        # a reply of an awaited service that lost its text (or its tag, or came with a field too many) on the way:
        # the same service, the same routing tag, right before the real reply
        i = draw(st.sampled_from(xs))
        head = good[i].split(" :", 1)[0]
        cut = draw(st.sampled_from([head, head, head + " ", " ".join(head.split(" ")[:3]), head.replace(" X ", " x ", 1).rsplit(" ", 1)[0],
                                    head + " extra", head.replace("-1 X", "-1 X ", 1)]))
        if cut != head.replace("-1 X", "-1 X ", 1) or True:
            ins.append([i, cut])
    chunks = draw(st.lists(st.sampled_from([1, 3, 7, 33, 100, 4096]), min_size=0, max_size=6))
    return {"mode": "junk", "conf": conf, "lines": good, "junk": ins, "chunks": chunks}


def c08_s(pid, tier, opts=None):
    return st.one_of(c08_total_s(tier), c08_junk_s(tier), c08_total_s(tier))


def with_junk(lines, junk):
    out = list(lines)
    # insert from the back so that positions refer to the original list
    for pos, ln in sorted(junk, key=lambda x: -x[0]):
        out.insert(min(pos, len(out)), ln)
    return out


def crashy(r):
    mem, arith, leak = dm.classify_stderr(r["err"])
    why = []
    if r["hang"]:
        why.append("hang (no exit %gs after end of input)" % HANG_S)
    elif r["rc"] is not None and r["rc"] < 0:
        why.append("killed by signal %d" % -r["rc"])
    elif r["rc"] != 0:
        why.append("exit status %s at end of input" % r["rc"])
    if mem:
        why.append("sanitizer: " + mem[0][:160])
    return why, arith


def sig_for(why):
    w = " ".join(why)
    if "null" in w.lower() or "SEGV" in w:
        return "crash_null"
    if "hang" in w:
        return "hang"
    if "sanitizer" in w:
        return "memory_error"
    return "unclean_exit"


def eval_c08(case, ctx):
    res = CaseResult()
    wd = os.path.join(ctx["root"], "c")
    shutil.rmtree(wd, ignore_errors=True)
    ctext = ep.conf_text(case["conf"])
    if case["mode"] == "total":
        data = "".join(l + e for l, e in zip(case["lines"], case["eols"])).encode("latin-1")
        if case["cut"] is not None:
            data = data[:case["cut"]]
            res.classes.add("truncated")
        r1 = run_batch(ctext, data, wd)
        why, arith = crashy(r1)
        if why:
            if r1["hang"]:
                # re-run before calling it a hang (and hyprun.confirm repeats the whole case three times)
                again = [run_batch(ctext, data, wd)["hang"] for _ in range(1)]
                if not all(again):
                    res.inconclusive = "hang_not_reproduced"
                    return res
            res.violations.append(V("C08", sig_for(why), "stream of %d bytes: %s" % (len(data), "; ".join(why))))
            return res
        shutil.rmtree(wd, ignore_errors=True)
        r2 = run_batch(ctext, data, wd, chunks=case["chunks"])
        why, _ = crashy(r2)
        if why:
            res.violations.append(V("C08", sig_for(why), "chunked stream of %d bytes: %s" % (len(data), "; ".join(why))))
            return res
        if mask(r1["out"]) != mask(r2["out"]):
            a, b = mask(r1["out"]), mask(r2["out"])
            j = 0
            while j < len(a) and j < len(b) and a[j] == b[j]:
                j += 1
            res.violations.append(V("C08", "segmentation_dependent", "output differs between whole and chunked write at line %d: %r vs %r"
                                    % (j, a[j][:120] if j < len(a) else None, b[j][:120] if j < len(b) else None)))
        res.nontrivial = True   # every total-mode stream contains >=1 hostile line next to client traffic
        if arith:
            res.classes.add("ubsan_arith_observation")
        if any(len(l) > 4096 for l in case["lines"]):
            res.classes.add("line_longer_than_read")
        return res
    # ---- junk invariance
    base = ("\n".join(case["lines"]) + "\n").encode("latin-1")
    mixed = ("\n".join(with_junk(case["lines"], case["junk"])) + "\n").encode("latin-1")
    r1 = run_batch(ctext, base, wd)
    why, _ = crashy(r1)
    if why:
        res.violations.append(V("C08", sig_for(why), "well-formed stream: " + "; ".join(why)))
        return res
    shutil.rmtree(wd, ignore_errors=True)
    r2 = run_batch(ctext, mixed, wd, chunks=case["chunks"] or None)
    why, _ = crashy(r2)
    if why:
        res.violations.append(V("C08", sig_for(why), "stream with junk lines %r: %s" % ([j[1][:60] + ("...(%d bytes)" % len(j[1]) if len(j[1]) > 60 else "") for j in case["junk"]], "; ".join(why))))
        return res
    strip = lambda ls: [l for l in mask(ls) if not l.startswith("> :ircd sent garbage")]
    a, b = strip(r1["out"]), strip(r2["out"])
    if a != b:
        j = 0
        while j < len(a) and j < len(b) and a[j] == b[j]:
            j += 1
        res.violations.append(V("C08", "junk_changes_behaviour", "junk lines %r change the treatment of well-formed lines: output line %d is %r instead of %r"
                                % ([j_[1][:60] + ("...(%d bytes)" % len(j_[1]) if len(j_[1]) > 60 else "") for j_ in case["junk"]], j, b[j][:120] if j < len(b) else None, a[j][:120] if j < len(a) else None)))
    res.nontrivial = True
    res.classes.add("junk_mode")
    return res


# ===========================================================================
# dispatch

def strategy(pid, tier, opts):
    if pid == "C08":
        return c08_s(pid, tier, opts)
    raise AssertionError(pid)


def evaluate(case, ctx):
    ctx["n"] += 1
    if ctx["pid"] == "C08":
        return eval_c08(case, ctx)
    raise AssertionError(ctx["pid"])


# ===========================================================================
# C17: a reload reaches the decision modules (differential vs. fresh start)

import copy
import re

RULE_FIELDS = {
    "class": ["c1", "c2", "opers", "users"],
    "hostname": ["*.example.org", "trusted.*", "*", "a.example.org", ""],
    "username": ["joe", "~*", "*", "oper"],
    "account": ["alice", "al*", "*", "bob", ""],
    "address": ["10.0.0.0/8", "10.1.0.0/16", "127.*", "2001:db8::/32", "*"],
    "trust_username": ["true", "false"],
}
C17_SVCS = ["login.ex", "bot.ex", "comb.ex", "ipr.ex", "extra.ex", "Auth.Ex", "Checker.ex", "ZED.EX",     # configuration order ignores case
            "login.ex.uk", "bot"]                                                                      # a name may be a prefix of another
C17_RULES = ["r1", "r2", "R3", "alpha", "Beta", "zz"]


@st.composite
def c17_rule_s(draw, name, svcs):
    f = {}
    for k in draw(st.lists(st.sampled_from(sorted(RULE_FIELDS)), max_size=3, unique=True)):
        f[k] = draw(st.sampled_from(RULE_FIELDS[k]))
    if svcs and draw(st.integers(0, 4)) == 0:
        f["xreply_ok"] = draw(st.sampled_from(svcs))
    return [name, f]


@st.composite
def c17_tables_s(draw):
    ns = draw(st.integers(0, 4))
    names = draw(st.permutations(C17_SVCS))[:ns]
    services = [[n, draw(st.sampled_from(list(proto.PROTOCOLS) * 3 + ["logon", "combine"]))] for n in names]
    nr = draw(st.integers(0, 4))
    rn = draw(st.permutations(C17_RULES))[:nr]
    rules = [draw(c17_rule_s(n, names)) for n in rn]
    return services, rules


EDITS = ["add_svc", "del_svc", "proto_inplace", "add_rule", "del_rule", "rule_field_inplace", "rule_add_criterion", "rule_del_criterion", "noop",
         "del_svc", "add_svc", "proto_inplace", "rule_field_inplace", "rule_field_case", "rule_field_case", "empty_tables", "omit_section",
         "add_svc_with_rule", "add_rule_future_svc"]
WANTED_SVC = []   # services that a rule added by an earlier edit of the current case names but the table does not have yet


OMIT = set()      # sections the file produced by the current edit leaves out (filled by apply_edit, read by c17_s)


def apply_edit(draw, services, rules, force=None):
    services = copy.deepcopy(services)
    rules = copy.deepcopy(rules)
    kind = force or draw(st.sampled_from(EDITS))
    used = [s[0] for s in services]
    if kind == "add_svc":
        free = [n for n in C17_SVCS if n not in used]
        want = [n for n in WANTED_SVC if n in free]
        if free:
            services.insert(draw(st.integers(0, len(services))), [draw(st.sampled_from(want or free)), draw(st.sampled_from(proto.PROTOCOLS))])
    elif kind in ("add_svc_with_rule", "add_rule_future_svc"):
        # a rule that asks for an OK of a service which the same reload - or a later one - brings
        free = [n for n in C17_SVCS if n not in used]
        rfree = [n for n in C17_RULES + ["a0", "A1"] if n.lower() not in [r[0].lower() for r in rules]]
        if free and rfree:
            nm = draw(st.sampled_from(free))
            rules.append([draw(st.sampled_from(rfree)), {"xreply_ok": nm if draw(st.integers(0, 3)) else nm.swapcase(), "class": "checked"}])
            if kind == "add_svc_with_rule":
                services.insert(draw(st.integers(0, len(services))), [nm, draw(st.sampled_from(proto.PROTOCOLS))])
            else:
                WANTED_SVC.append(nm)
    elif kind == "del_svc" and services:
        services.pop(draw(st.integers(0, len(services) - 1)))
    elif kind == "proto_inplace" and services:
        s = services[draw(st.integers(0, len(services) - 1))]
        # (a misspelt type is legal: the entry is ignored until an edit corrects it)
        s[1] = draw(st.sampled_from([p for p in list(proto.PROTOCOLS) + ["logon", "drone-check"] if p != s[1]]))
    elif kind == "add_rule":
        free = [n for n in C17_RULES if n not in [r[0] for r in rules]]
        if free:
            rules.append(draw(c17_rule_s(draw(st.sampled_from(free)), used)))
    elif kind == "del_rule" and rules:
        rules.pop(draw(st.integers(0, len(rules) - 1)))
    elif kind == "rule_field_inplace" and rules:
        r = rules[draw(st.integers(0, len(rules) - 1))]
        if r[1]:
            k = draw(st.sampled_from(sorted(r[1])))
            if k in RULE_FIELDS:
                r[1][k] = draw(st.sampled_from([v for v in RULE_FIELDS[k] if v != r[1][k]]))
        else:
            kind = "rule_add_criterion"
    if kind == "rule_field_case" and rules:
        # an edit that changes nothing but letter case (class names and globs are case-sensitive)
        r = rules[draw(st.integers(0, len(rules) - 1))]
        ks = [k for k in r[1] if k in ("class", "hostname", "username", "account") and r[1][k].swapcase() != r[1][k]]
        if ks:
            k = draw(st.sampled_from(sorted(ks)))
            r[1][k] = r[1][k].swapcase() if draw(st.booleans()) else r[1][k].capitalize()
    elif kind == "omit_section":
        # the new file does not mention the section at all (same meaning as an empty one)
        if draw(st.booleans()):
            services = []
            OMIT.add("iauth_xquery")
        else:
            rules = []
            OMIT.add("iauth_class")
    elif kind == "empty_tables":
        # the sections stay in the file but become completely empty
        if draw(st.booleans()):
            services = []
        else:
            rules = []
    if kind == "rule_add_criterion" and rules:
        r = rules[draw(st.integers(0, len(rules) - 1))]
        free = [k for k in RULE_FIELDS if k not in r[1]]
        if free:
            k = draw(st.sampled_from(free))
            r[1][k] = draw(st.sampled_from(RULE_FIELDS[k]))
    elif kind == "rule_del_criterion" and rules:
        r = rules[draw(st.integers(0, len(rules) - 1))]
        if r[1]:
            del r[1][draw(st.sampled_from(sorted(r[1])))]
    return kind, services, rules


@st.composite
def c17_s(draw, pid, tier, opts=None):
    services, rules = draw(c17_tables_s())
    steps = []
    cur_s, cur_r = services, rules
    kinds = []
    omits = []
    del WANTED_SVC[:]
    for _ in range(draw(st.sampled_from([1, 1, 1, 2, 2, 3]))):
        OMIT.clear()
        if WANTED_SVC and draw(st.booleans()):
            k, cur_s, cur_r = apply_edit(draw, cur_s, cur_r, "add_svc")
        else:
            k, cur_s, cur_r = apply_edit(draw, cur_s, cur_r)
        kinds.append(k)
        steps.append([cur_s, cur_r])
        omits.append(sorted(OMIT))
    full = draw(st.integers(0, 11)) == 0
    if full:
        # a service table at (or just below) its capacity of 32 entries: renaming an entry, or dropping some and adding
        # as many new ones over two reloads, frees and re-uses table slots
        n = draw(st.sampled_from([31, 32, 32]))
        services = [["s%02d.ex" % i, draw(st.sampled_from(proto.PROTOCOLS))] for i in range(n)]
        rules = rules[:2]
        for r_ in rules:
            if "xreply_ok" in r_[1]:
                r_[1]["xreply_ok"] = draw(st.sampled_from(["s00.ex", "s31.ex", "n05.ex", "zz1.ex"]))
        if draw(st.booleans()):
            new = copy.deepcopy(services)
            i = draw(st.integers(0, n - 1))
            new[i] = [draw(st.sampled_from(["n%02d.ex" % i, "zz1.ex", "a00.ex"])), draw(st.sampled_from(proto.PROTOCOLS))]
            steps, kinds = [[new, rules]], ["rename_svc_full_table"]
        else:
            drop = draw(st.lists(st.integers(0, n - 1), min_size=1, max_size=3, unique=True))
            s1 = [x for i, x in enumerate(copy.deepcopy(services)) if i not in drop]
            s2 = s1 + [["n%02d.ex" % i, draw(st.sampled_from(proto.PROTOCOLS))] for i in drop]
            steps, kinds = [[s1, rules], [s2, rules]], ["del_svc_full_table", "add_svc_full_table"]
    mk = lambda s, r: {"modules": ["iauth_class", "iauth_xquery"], "services": s, "rules": r, "timeout": 0, "logs": [["*.>=info", "file:iauthd.log"]]}
    confs = [mk(services, rules)] + [mk(s, r) for s, r in steps]
    if not full:
        for c_, om in zip(confs[1:], omits):
            if om and not (("iauth_xquery" in om and c_["services"]) or ("iauth_class" in om and c_["rules"])):
                c_["omit_sections"] = om
    if draw(st.integers(0, 5)) == 0:
        # the new file also spells the (same) set of modules differently: another order, or a module named twice
        for c_ in confs[draw(st.integers(1, len(confs) - 1)):]:
            c_["modules"] = draw(st.sampled_from([["iauth_xquery", "iauth_class"], ["iauth_class", "iauth_xquery", "iauth_class"], ["iauth_xquery", "iauth_class", "iauth"]]))
        kinds = kinds + ["modules_list_respelled"]
    # traffic before the reload: clients that may leave queries outstanding
    pre = []
    if not full and draw(st.booleans()):
        for cid in (1, 2)[:draw(st.integers(1, 2))]:
            pre += [["C", cid, "10.9.9.9", 1111], ["N", cid, "pre.example.org"], ["u", cid, "pre"], ["n", cid, "Pre%d" % cid],
                    ["U", cid, "pre", "pre client"], ["P", cid, "+x alice pw"]]
            for s in draw(st.lists(st.sampled_from([x[0] for x in services] or ["none.ex"]), max_size=3)):
                pre.append(["X", cid, s, draw(st.sampled_from(["OK", "OK alice", "AGAIN x"])), "cur"])
    if draw(st.booleans()) and (full or pre):
        # the clients seen before the reload were asked about the services and are gone before the answers came
        # (disconnected, registered elsewhere, re-announced, refused by one service): nobody waits for a dropped service
        if not pre:
            for cid in (1, 2)[:draw(st.integers(1, 2))]:
                pre += [["C", cid, "10.9.9.9", 1111], ["N", cid, "pre.example.org"], ["u", cid, "pre"], ["n", cid, "Pre%d" % cid],
                        ["U", cid, "pre", "pre client"], ["P", cid, "+x alice pw"]]
        for cid in sorted({e[1] for e in pre if e[0] == "C"}):
            how_ = draw(st.sampled_from(["D", "T", "C", "NO", "D"]))
            if how_ == "C":
                pre += [["C", cid, "10.9.9.8", 1112]]
            elif how_ == "NO" and services:
                pre += [["X", cid, draw(st.sampled_from(services))[0], "NO go away", "cur"]]
            pre += [[draw(st.sampled_from(["D", "T"])) if how_ in ("C", "NO") else how_, cid]]
        kinds = kinds + ["clients_left_unanswered"]
    # probes: clients touching every service and rule of the final table
    probes = []
    final_svcs = [s[0] for s in confs[-1]["services"]]
    for ci in range(draw(st.integers(1, 3))):
        cid = 50 + ci
        ip = draw(st.sampled_from(["10.1.2.3", "10.200.0.1", "127.0.0.1", "2001:db8:0:0:0:0:0:1", "192.168.1.1"]))
        host = draw(st.sampled_from(["a.example.org", "trusted.net", "x.y", "", "A.EXAMPLE.ORG", "Trusted.net"]))
        ident = draw(st.sampled_from(["joe", "~joe", "oper", "~web", "JOE", "Oper"]))
        acct = draw(st.sampled_from(["alice", "bob", None, "ALICE", "Alice"]))
        sc = [["C", cid, ip, 2000 + ci], ["N", cid, host] if host else ["d", cid], ["u", cid, ident], ["n", cid, "Probe%d" % ci],
              ["U", cid, "claimed", "probe client"]]
        if acct:
            sc.append(["P", cid, "+x %s pw" % acct])
        sc.append(["raw", "-1 ? config"])
        for s in draw(st.permutations(final_svcs + ["login.ex"] if not final_svcs else final_svcs)):
            sc.append(["X", cid, s, ("OK %s" % acct) if acct and draw(st.booleans()) else "OK", "cur"])
        sc.append(["H", cid])
        probes += sc
    # how the operator installs the new file before SIGUSR1: rewritten in place, renamed over the old one, or the path
    # given with -f is a symbolic link that is re-pointed
    how = draw(st.sampled_from(["rewrite", "rewrite", "rename", "symlink"]))
    return {"confs": confs, "edits": kinds, "pre": pre, "probes": probes, "how": how}


def masked(lines):
    out = []
    for ln in lines:
        m = ep2.TAG_RE.match(ln)
        if m:
            out.append("X %s %s_* :%s" % (m.group(1), m.group(2), ln[m.end():]))
        elif ln.startswith("A xquery :-"):
            continue        # unconfigured entry kept alive by outstanding references
        else:
            out.append(ln)
    return sorted(out)


def run_c17(confs, pre, probes, workdir, reload_, how="rewrite"):
    d = dm.Daemon(ep.conf_text(confs[0] if reload_ else confs[-1]), workdir, how=how)
    steps = []
    try:
        try:
            banner = [b.decode("latin-1") for b in d.start()]
        except dm.DaemonDied:
            d.finish()
            return None, "did not start"
        # the model is only used to resolve routing tags; it follows the final table
        spec = proto.Spec(proto.Conf(confs[-1]), ep.policies_of(banner))
        try:
            if reload_:
                for i, ev in enumerate(pre):
                    line = ep.concretize(ev, spec)
                    spec.feed_input(i, line)
                    out, _, _ = d.step(line)
                    spec.feed_output(i, [b.decode("latin-1") for b in out])
                for c in confs[1:]:
                    d.reload(ep.conf_text(c))
            for i, ev in enumerate(probes):
                line = ep.concretize(ev, spec)
                spec.feed_input(1000 + i, line)
                out, _, _ = d.step(line)
                out = [b.decode("latin-1") for b in out]
                spec.feed_output(1000 + i, out)
                steps.append((line, masked(out)))
        except dm.DaemonDied:
            return None, "died"
        except dm.DaemonHang:
            d.kill()
            return None, "stopped answering"
        rc, rest, err = d.finish()
        mem, _, _ = dm.classify_stderr(err)
        if mem:
            return None, "sanitizer: " + mem[0][:200]
    finally:
        if d.p.poll() is None:
            d.kill()
    return steps, None


def classify_c17(case, a_line, b_out, a_out):
    edits = set(case["edits"])
    txt = " ".join(b_out + a_out)
    if "proto_inplace" in edits and ("X " in txt or "A xquery" in txt):
        return "stale_protocol_inplace"
    if edits & {"rule_field_inplace", "rule_add_criterion", "rule_del_criterion"} and not edits & {"add_svc", "del_svc", "proto_inplace"}:
        return "stale_rule_inplace"
    if "add_svc" in edits and "del_svc" in edits:
        return "service_readded_dropped"
    return "reload_differs"


def eval_c17(case, ctx):
    res = CaseResult()
    wd = os.path.join(ctx["root"], "c")
    shutil.rmtree(wd, ignore_errors=True)
    a, err = run_c17(case["confs"], case["pre"], case["probes"], wd, True, how=case.get("how", "rewrite"))
    shutil.rmtree(wd, ignore_errors=True)
    b, errb = run_c17(case["confs"], [], case["probes"], wd, False)
    if b is None:
        res.inconclusive = "sut_hang" if errb == "stopped answering" else "sut_died"      # the fresh daemon itself fails on this probe traffic: not a reload matter
        return res
    if a is None:
        # a daemon freshly started on the new file serves the probes, the reloaded one died or
        # reported a memory error on the way: it certainly does not treat the client the same way
        res.violations.append(V("C17", "reloaded_daemon_died", "edits %s: the reloaded daemon %s while a daemon freshly started on the new file serves the same probes"
                                % (case["edits"], err)))
        return res
    for i, ((la, oa), (lb, ob)) in enumerate(zip(a, b)):
        if oa != ob:
            sig = classify_c17(case, la, ob, oa)
            res.violations.append(V("C17", sig, "edits %s: probe step %d (%r): reloaded daemon answers %r, a daemon freshly started on the new file answers %r"
                                    % (case["edits"], i, la[:80], oa, ob)))
            break
    for k in case["edits"]:
        res.classes.add("edit_" + k)
    if case["pre"]:
        res.classes.add("traffic_before_reload")
    res.nontrivial = any(k != "noop" for k in case["edits"]) and any(o for _, o in b)
    return res


_old_strategy = strategy
_old_evaluate = evaluate


def strategy(pid, tier, opts):   # noqa: F811
    if pid == "C17":
        return c17_s(pid, tier, opts)
    return _old_strategy(pid, tier, opts)


def evaluate(case, ctx):   # noqa: F811
    if ctx["pid"] == "C17":
        ctx["n"] += 1
        return eval_c17(case, ctx)
    return _old_evaluate(case, ctx)


# ===========================================================================
# E-inproc: libFuzzer on the daemon's real input handler (C08, extra phase)

import glob as _glob
import hashlib as _hashlib

INPROC_SEEDS = [bytes([2, 5, 9, 0, 1, 1, 2, 1, 1, 6, 1, 1, 4, 1, 1, 7, 1, 1, 9, 1, 1, 17, 1, 1, 23, 1, 1]),
                bytes([0, 0, 1, 1, 30, 1, 1, 26, 1, 1]), bytes([3, 1, 2, 3, 201]) + b"5 N \xff" + bytes([0, 2, 2]),
                bytes([3, 200, 100, 255, 0, 1, 1, 231, 1, 90, 2, 1, 1, 4, 1, 1, 6, 1, 1, 7, 1, 1]),
                bytes([2, 255, 255, 0, 2, 1, 226, 2, 140, 2, 2, 1])]


def build_inproc():
    hsrc = vc.harness_path("inproc_fuzz.c")

    def b(out):
        cf = ["clang", "-g", "-O1", "-fsanitize=fuzzer-no-link,address,undefined", "-fno-sanitize-recover=undefined"] + vc.DEFS + vc.inc_flags() + ["-w", "-c"]
        m = lambda n: os.path.join(vc.REPO, "modules", n)
        s = lambda n: os.path.join(vc.REPO, "src", n)
        o = lambda n: os.path.join(out, n)
        cmds = [cf + [hsrc, "-o", o("inproc.o")],
                cf + ["-Dmodule_constructor=xquery_module_constructor", "-Dmodule_destructor=xquery_module_destructor", m("iauth_xquery.c"), "-o", o("xq.o")],
                cf + ["-Dmodule_constructor=class_module_constructor", "-Dmodule_destructor=class_module_destructor", m("iauth_class.c"), "-o", o("cl.o")],
                cf + [m("iauth_misc.c"), "-o", o("misc.o")]]
        objs = ["inproc.o", "xq.o", "cl.o", "misc.o"]
        for f in ("config", "log", "set", "common", "bitset", "accumulators", "git-version"):
            cmds.append(cf + [s(f + ".c"), "-o", o("s_%s.o" % f)])
            objs.append("s_%s.o" % f)
        vc._parallel(cmds)
        vc._run(["clang", "-fsanitize=fuzzer,address,undefined"] + [o(x) for x in objs] + ["-levent", "-lm", "-o", o("inproc_fuzz")])
    return os.path.join(vc.cached_build("inproc", vc.repo_sources() + [hsrc], vc.DEFS, b), "inproc_fuzz")


def run_inproc_input(binary, data, workdir):
    os.makedirs(workdir, exist_ok=True)
    f = os.path.join(workdir, "input.bin")
    with open(f, "wb") as fh:
        fh.write(data)
    env = dict(os.environ)
    env["ASAN_OPTIONS"] = "detect_leaks=0:abort_on_error=0"
    env["VERIF_INPROC_DIR"] = workdir
    p = subprocess.run([binary, f], stdout=subprocess.PIPE, stderr=subprocess.PIPE, env=env, timeout=120)
    txt = p.stderr.decode("latin-1")
    if p.returncode != 0:
        for ln in txt.splitlines():
            if "ERROR: AddressSanitizer" in ln or "runtime error" in ln or "ORACLE-FAIL" in ln:
                return ln.strip()[:300]
        return "exit %d" % p.returncode
    return None


def eval_inproc(case, ctx):
    res = CaseResult()
    try:
        binary = build_inproc()
    except vc.MachineryError:
        res.inconclusive = "inproc_harness_does_not_build"
        return res
    msg = run_inproc_input(binary, bytes.fromhex(case["input_hex"]), os.path.join(ctx["root"], "inproc"))
    if msg:
        sig = "segmentation_dependent" if "ORACLE-FAIL" in msg else ("crash_null" if "null" in msg else "memory_error")
        res.violations.append(V("C08", sig, "in-process input handler on a decoded fuzz input: " + msg))
    return res


def extra_phase(pid, tier, seed):
    if pid != "C08":
        return None
    out = {"evaluations": 0, "nontrivial": 0, "fails": [], "classes": {}, "samples": [], "exhaustive_scope": None}
    try:
        binary = build_inproc()
    except vc.MachineryError as e:
        # the harness names static objects of iauth_core.c; if a refactoring renamed them this
        # component is skipped and says so - never a verdict
        print("NOTE: E-inproc harness does not build against this tree and was skipped (%s)" % str(e).splitlines()[0][:120])
        out["classes"]["inproc_skipped"] = 1
        return out
    root = os.path.join(vc.BUILD, "tmp", "%d-inproc" % os.getpid())
    shutil.rmtree(root, ignore_errors=True)
    nproc = vc.NCPU
    runs = 60000 if tier == "quick" else 600000
    procs = []
    for i in range(nproc):
        d = os.path.join(root, str(i))
        corp = os.path.join(d, "corpus")
        os.makedirs(corp)
        for j, sdata in enumerate(INPROC_SEEDS if i % 2 == 0 else []):      # half of the jobs start from an empty corpus
            with open(os.path.join(corp, "seed%d" % j), "wb") as fh:
                fh.write(sdata)
        env = dict(os.environ)
        env["ASAN_OPTIONS"] = "detect_leaks=0:abort_on_error=0"
        env["VERIF_INPROC_DIR"] = d
        fs = (seed * 977 + i * 31 + 5) % 2 ** 31 or 1
        procs.append((d, vc.Proc([binary, "-runs=%d" % runs, "-max_len=400", "-seed=%d" % fs, "-artifact_prefix=" + d + "/",
                                  "-print_final_stats=1", "-timeout=30", corp], env=env)))
    for d, p in procs:
        err = p.communicate()[1].decode("latin-1")
        for ln in err.splitlines():
            if ln.startswith("stat::number_of_executed_units:"):
                out["evaluations"] += int(ln.split(":")[-1])
        for a in sorted(_glob.glob(os.path.join(d, "crash-*"))):
            with open(a, "rb") as fh:
                data = fh.read()
            msg = "libFuzzer artifact"
            for ln in err.splitlines():
                if "ERROR: AddressSanitizer" in ln or "runtime error" in ln or "ORACLE-FAIL" in ln:
                    msg = ln.strip()[:300]
                    break
            out["fails"].append({"case": {"mode": "inproc", "input_hex": data.hex()}, "sig": "crash_null" if "null" in msg else "memory_error", "msg": msg})
        for a in sorted(_glob.glob(os.path.join(d, "corpus", "*")))[:1]:
            with open(a, "rb") as fh:
                out["samples"].append({"mode": "inproc", "input_hex": fh.read().hex()})
    out["nontrivial"] = 0      # coverage-guided executions are not individually classified
    out["classes"]["inproc_fuzz_executions"] = out["evaluations"]
    shutil.rmtree(root, ignore_errors=True)
    return out


_evaluate2 = evaluate


def evaluate(case, ctx):   # noqa: F811
    if isinstance(case, dict) and case.get("mode") == "inproc":
        return eval_inproc(case, ctx)
    return _evaluate2(case, ctx)


def setup():
    try:
        build_inproc()
    except vc.MachineryError as e:
        print("NOTE: E-inproc harness does not build (%s); C08 will skip that component" % str(e).splitlines()[0][:100])
