"""Engine E-proto: Hypothesis-generated configurations and event histories run
against the real sanitized daemon; monitors from proto.py judge the trace."""
import os
import shutil
import string
import time

from hypothesis import strategies as st

import daemon as dm
import proto
import vcommon as vc
from hyprun import CaseResult

TOKEN = string.ascii_letters + string.digits + "-_[]{}|^`"
TEXT = string.ascii_letters + string.digits + " -_.,;!?+*/=()[]{}<>@#$%&'\"|^~:\\"
HOSTCH = string.ascii_lowercase + string.digits + "-."
SVC_POOL = ["alpha.ex", "Beta.ex", "gamma.ex", "delta.ex", "eps.ex", "zeta.ex",
            # names that are a prefix of / share the first character with / look like a glob for another one
            "alpha.ex.org", "galpha.ex", "gamm?.ex"]
IPS = ["127.0.0.1", "10.1.2.3", "192.168.0.77", "1.2.3.4", "2001:db8::1", "fe80::1:2", "0::ffff:9.8.7.6",
       "1:2:3:4:5:6:7:8", "0::1", "255.255.255.255", "2001:0:0:1::2",
       # the server's own notation where it is a matter of rule: two runs of zero groups of equal length (the first one
       # is abbreviated), a single zero group, a run at the end
       "2001:db8::1:0:0:1", "1::2:0:0:3:4", "2001:db8::5:6:0:7:8", "1:2:3::5:6:7:8", "1:2:3:4:5:6:7::", "fe80::1:0:0:0:2"]


# ---------------------------------------------------------------------------
# field strategies

def sized(alphabet, limit, first=None):
    lens = [1, 2, 3, 5, 7, max(1, limit - 1), limit, limit + 1, 2 * limit]

    @st.composite
    def s(draw):
        if draw(st.integers(0, 9)) < 6:
            L = draw(st.integers(1, min(8, limit)))
        else:
            L = draw(st.sampled_from(lens))
        t = draw(st.text(alphabet, min_size=L, max_size=L))
        if first and t[0] not in first:
            t = draw(st.sampled_from(first)) + t[1:]
        return t
    return s()


nick_s = sized(TOKEN, proto.NICKLEN, first=string.ascii_letters)
user_s = sized(TOKEN + "~", proto.USERLEN, first=string.ascii_letters + "~")
_ident_plain = sized(TOKEN + "~", proto.USERLEN, first=string.ascii_letters + "~")
ident_s = st.one_of(_ident_plain, _ident_plain, _ident_plain, _ident_plain.map(lambda t: "~" + t[1:] if len(t) > 1 else "~"))
host_s = sized(HOSTCH, proto.HOSTLEN, first=string.ascii_lowercase)
real_s = sized(TEXT, proto.REALLEN)
acct_s = sized(string.ascii_letters + string.digits + "-_", 20, first=string.ascii_letters)
text_s = st.text(TEXT, min_size=0, max_size=60) | st.text(TEXT, min_size=200, max_size=380)
MODES = ["+", "+x", "+!", "+x!", "+!x", "-!", "-x", "+x-x", "+!-!", "-!+!", "+x+!", "-x!", "+", "+!",
         # characters other than + - x ! are skipped by the documented mode syntax
         "+xw!", "+a", "+ix", "-w+!", "+x!z", "+!", "+x!",
         # a flag cleared and set again (or the other way round) inside one prefix: the last word counts
         "-x+x", "-x+x!", "-!+!x", "+x-x+x", "-!-x+!"]


@st.composite
def account_s(draw):
    a = draw(acct_s)
    k = draw(st.integers(0, 9))
    if k < 3:
        a += ":%d" % draw(st.integers(0, 99999))
    elif k == 3:
        a = a + "x" * (proto.ACCOUNTLEN - len(a) + draw(st.integers(-1, 2)))
    elif k == 4:
        a += ":%d:%d" % (draw(st.integers(1, 1700000000)), draw(st.integers(0, 99999)))     # full stamp: account:timestamp:id
    return a


@st.composite
def password_s(draw, weights):
    """weights: (wellformed, malformed)"""
    if draw(st.integers(1, weights[0] + weights[1])) <= weights[0]:
        m = draw(st.sampled_from(weights[2] if len(weights) > 2 else MODES))
        sp = draw(st.sampled_from([" ", " ", " ", "  "]))
        pw = draw(st.text(TEXT.replace(":", ""), min_size=1, max_size=12))
        if draw(st.integers(0, 24)) == 0:
            pw = draw(st.sampled_from(["p", "Zq", "pw-"])) * draw(st.sampled_from([150, 230, 440]))      # near the longest a 512-byte line can carry
            pw = pw[:470]
        return "%s%s%s %s" % (m, sp, draw(acct_s), pw)
    if draw(st.integers(0, 30)) == 0:
        # (as a challenge response) far longer than an IRC line - the daemon reads lines of any length
        return draw(st.sampled_from(["r", "Xy", "resp "])) * draw(st.sampled_from([300, 520, 1100]))
    return draw(st.sampled_from(["plain", "+x onlyone", "x a b", " +x a b", "+x", "+!", "-", "secret word", "+xaccount pass",
                                 # a mode prefix asking for +! / -! but no '<account> <password>' pair: not a password at all
                                 "+! onlyone", "+x! hunter2", "-! one", "+!   lonely", "+x!", "+!x "]))


@st.composite
def reply_s(draw, kinds):
    k = draw(st.sampled_from(kinds))
    if k == "OK":
        return "OK"
    if k == "OKA":
        extra = draw(st.sampled_from(["", "", " extra words"]))
        return "OK " + draw(account_s()) + extra
    if k == "OKE":
        return "OK "
    if k == "NO":
        return "NO " + draw(text_s)
    if k == "NOL":
        # a refusal whose text does not fit any output buffer (the verdict is still due, however it is cut)
        return "NO " + draw(st.sampled_from(["x", "go away ", "A:"])) * draw(st.sampled_from([340, 520, 1100]))
    if k == "MOREL":
        # a challenge that does not fit the daemon's output line (it is relayed cut short, as one line)
        return draw(st.sampled_from(["MORE ", "AGAIN "])) + draw(st.sampled_from(["y", "say friend ", "B:"])) * draw(st.sampled_from([340, 520, 1100]))
    if k == "AGAIN":
        return "AGAIN " + draw(text_s)
    if k == "MORE":
        return "MORE " + draw(text_s)
    return draw(st.sampled_from(["NO", "YES fine", "OKAY", "MORE", "AGAIN", "ok", "OK\tx", "no thanks"]))


# ---------------------------------------------------------------------------
# profiles: weights of event kinds per property

BASE = {
    "N": 6, "d": 2, "u": 5, "ub": 2, "n": 6, "U": 6, "Ubad": 1, "Eerr": 1, "P": 5, "H": 2, "D": 1, "T": 1, "C": 1,
    "X": 14, "x": 2, "!": 3, "Xstale": 2, "Xforeign": 1,
}
PROFILES = {
    "default": dict(BASE),
    "C01": dict(BASE, D=3, T=3, C=4, Xstale=4, H=3),
    "C02": dict(BASE, **{"!": 6, "P": 8, "X": 18}),
    "C03": dict(BASE, **{"!": 7, "P": 9, "X": 22, "Xstale": 1}),
    "C05": dict(BASE, X=24, P=7),
    "C06": dict(BASE, N=8, u=7, ub=4, n=8, U=8, P=8, H=4, X=6),
    "C10": dict(BASE, D=4, T=4, C=5),
    "C04": dict(BASE, D=3, T=2, C=3, X=14, P=8),
    "C07": dict(BASE, X=18, P=7),
    "C09": dict(BASE, X=10),
}
REPLY_KINDS = {
    "default": ["OK", "OK", "OKA", "OKA", "NO", "AGAIN", "MORE", "OKE", "BAD"] * 2 + ["NOL", "MOREL"],
    "C02": ["OK", "OK", "OKA", "OKA", "OKA", "OKE", "OKE", "AGAIN", "MORE", "NO", "BAD"] * 2 + ["NOL", "MOREL"],
    "C03": ["OK", "OK", "OKA", "OKA", "OKA", "OKA", "AGAIN", "MORE", "OKE", "BAD"] * 2 + ["MOREL"],
    "C05": ["OK", "OKA", "OKA", "OKA", "NO", "NO", "AGAIN", "AGAIN", "MORE", "MORE", "OKE"] * 2 + ["NOL", "MOREL"],
    "C10": ["OK", "OK", "OKA", "OKA", "NO", "AGAIN", "MORE", "OKE", "BAD", "NOL", "MOREL"],
}


def expand(weights):
    out = []
    for k, w in sorted(weights.items()):
        out.extend([k] * w)
    return out


@st.composite
def conf_s(draw, pid, tier):
    mods = draw(st.sampled_from([["iauth_class", "iauth_xquery"]] * 7 + [["iauth_xquery"]] * 2 + [["iauth"]]))
    nsv = draw(st.integers(0, 4))
    names = draw(st.permutations(SVC_POOL))[:nsv]
    if pid in ("C02", "C03", "C05", "C06", "C09", "default") and draw(st.integers(0, 13)) == 0:
        # large service tables: the per-client bookkeeping is one bit per table slot in 32-bit masks, so the
        # daemon supports 32 services (proto.MAX_SERVICES) and refuses the rest with an error
        nsv = draw(st.sampled_from([6, 9, 17, 31, 32, 32, 33, 34, 40]))
        names = list(draw(st.permutations(["s%02d.ex" % i for i in range(nsv - 2)] + ["alpha.ex", "Zeta.ex"])))
    protos = proto.PROTOCOLS + (("bogus",) if pid in ("C06", "default") else ())
    services = [[n, draw(st.sampled_from(protos))] for n in names]
    timeout = draw(st.sampled_from([0, 30, 30]))
    rules = []
    k = draw(st.integers(0, 5))
    if k == 0:
        rules = [["r1", {"class": "c1", "hostname": "*.example.org"}], ["r2", {"class": draw(st.sampled_from(["c2", "c2", "L" * 62, "L" * 63, "L" * 64, "L" * 90]))}]]
    elif k == 1:
        # rules that upgrade an untrusted (~) ident to the claimed user name at acceptance time
        rules = [["r1", {"class": "c1", "hostname": "*.example.org", "trust_username": "yes"}], ["r2", {"class": "c2", "trust_username": "true"}]]
    # what is logged where must not matter to the protocol: sometimes every input line is logged (debug level)
    logs = draw(st.sampled_from([[["*.>=info", "file:iauthd.log"]]] * 3 + [[["*.>=debug", "file:iauthd.log"]], [["*.*", "file:iauthd.log"]], []]))
    return {"modules": mods, "services": services, "timeout": timeout, "rules": rules, "logs": logs}


@st.composite
def event_s(draw, cid, conf, kinds, rkinds, pwweights):
    k = draw(st.sampled_from(kinds))
    svcs = [s[0] for s in conf["services"]]
    if k == "N":
        return ["N", cid, draw(host_s)]
    if k == "d":
        return ["d", cid]
    if k == "u":
        return ["u", cid, draw(ident_s)]
    if k == "ub":
        return ["u", cid]
    if k == "n":
        return ["n", cid, draw(nick_s)]
    if k == "U":
        return ["U", cid, draw(user_s), draw(real_s)]
    if k == "Ubad":
        return ["raw", "%d U %s" % (cid, draw(user_s))]
    if k == "Eerr":
        # the server passes on an error report that names the client: the modules may note it, the request lives on
        return ["raw", "%d E %s" % (cid, draw(st.sampled_from(["Invalid :Bad user info", "Invalid :", "Lost :connection reset by peer", "type", ""])))]
    if k == "P":
        return ["P", cid, draw(password_s(pwweights))]
    if k in ("H", "D", "T", "!"):
        return [k, cid]
    if k == "C":
        return ["C", cid, draw(st.sampled_from(IPS)), draw(st.integers(1, 65535))]
    if k in ("X", "Xstale", "Xforeign", "x"):
        if k == "Xforeign" or not svcs:
            svc = draw(st.sampled_from(["nobody.ex", "ALPHA.EX", "alpha.ex."]))
        elif draw(st.integers(0, 11)) == 0:
            svc = draw(st.sampled_from(SVC_POOL))      # possibly a service that only a later reload configures
        else:
            svc = draw(st.sampled_from(svcs))
        sm = "cur"
        if k == "Xstale":
            sm = draw(st.sampled_from(["prev", "next", "prev"]))
        if k == "x":
            return ["x", cid, svc, sm]
        return ["X", cid, svc, draw(reply_s(rkinds)), sm]
    raise AssertionError(k)


def completion(draw, cid, conf, script, rkinds, pwweights):
    """Append whatever data the script has not delivered yet, then one reply per service."""
    have = set(e[0] for e in script if e[0] in ("N", "d", "u", "n", "U") and len(e) > 2 or e[0] == "d")
    need = []
    if "N" not in have and "d" not in have:
        need.append(draw(st.sampled_from([["N", cid, "host.example.org"], ["d", cid]])))
    if "u" not in have:
        need.append(["u", cid, draw(ident_s)])
    if "n" not in have:
        need.append(["n", cid, draw(nick_s)])
    if "U" not in have:
        need.append(["U", cid, draw(user_s), draw(real_s)])
    if draw(st.booleans()) and not any(e[0] == "P" for e in script):
        need.append(["P", cid, draw(password_s((9, 1) + tuple(pwweights[2:])))])
    need = draw(st.permutations(need)) if need else []
    out = list(need)
    for s in draw(st.permutations([s[0] for s in conf["services"]])):
        out.append(["X", cid, s, draw(reply_s(rkinds)), "cur"])
        if draw(st.integers(0, 5)) == 0:
            out.append(["X", cid, s, draw(reply_s(rkinds)), "cur"])
    return out


def phased_script(draw, cid, conf, rkinds, pww):
    """A client that goes through the whole conversation in phases - all data (with an optional
    password somewhere in between), a round of replies, then one to three further rounds of
    password / challenge response + replies, with a timeout possible between rounds.  Reaches the
    deep hold-accounting states (re-login, second stamp, MORE answered twice, +! toggled) densely."""
    names = [s[0] for s in conf["services"]]
    sc = [["C", cid, draw(st.sampled_from(IPS)), draw(st.integers(1, 65535))]]
    data = [draw(st.sampled_from([["N", cid, "host.example.org"], ["d", cid]])), ["u", cid, draw(ident_s)], ["n", cid, draw(nick_s)],
            ["U", cid, draw(user_s), draw(real_s)]]
    if draw(st.integers(0, 2)) > 0:
        data.append(["P", cid, draw(password_s((9, 1) + tuple(pww[2:])))])
    sc.extend(draw(st.permutations(data)))
    for rnd in range(draw(st.integers(1, 4))):
        if rnd > 0:
            if draw(st.integers(0, 5)) == 0:
                sc.append(["!", cid])
            sc.append(["P", cid, draw(password_s((9, 1) + tuple(pww[2:])))])
        for s_ in draw(st.permutations(names)):
            k = draw(st.integers(0, 9))
            if k == 0:
                continue                      # this service stays silent in this round
            sc.append(["X", cid, s_, draw(reply_s(rkinds)), "cur"])
            if k == 1:
                sc.append(["X", cid, s_, draw(reply_s(rkinds)), "cur"])   # duplicate answer
        if draw(st.integers(0, 7)) == 0:
            sc.append(draw(st.sampled_from([["H", cid], ["!", cid], ["n", cid, "Nick2"], ["u", cid]])))
    return sc


def shared_service_scenario(draw, conf):
    """Two clients wait for the same login-type service; the first goes through a challenge or a retry with it and is
    answered for good; a reload then drops the service while the second client still waits; the service answers the
    second client.  (Per-service bookkeeping shared between clients must not let the first client's history decide
    whether the second one's answer is still heard.)"""
    logins = [s_[0] for s_ in conf["services"] if s_[1] in ("login", "login-ipr", "combined")]
    S = draw(st.sampled_from(logins))
    others = [s_[0] for s_ in conf["services"] if s_[0] != S]
    a, b = draw(st.sampled_from([(1, 2), (2, 1), (7, 40), (2000000000, -2000000000)]))
    ev = []
    for cid in (a, b):
        ev += [["C", cid, draw(st.sampled_from(IPS)), draw(st.integers(1, 65535))], ["N", cid, "host%d.example.org" % (cid % 100)], ["u", cid, "id%d" % (cid % 100)],
               ["n", cid, "Nick%d" % (cid % 100)], ["U", cid, "user", "real name"]]
    ev.append(["P", a, "%s acctA pwA" % draw(st.sampled_from(["+x", "+x!", "+"]))])
    if draw(st.integers(0, 2)) == 0:
        # ... or the first client has the service all to itself (nobody else keeps the service's record alive)
        ev = [e_ for e_ in ev if e_[1] != b]
    else:
        ev.append(["P", b, "%s acctB pwB" % draw(st.sampled_from(["+x", "+x!", "+!"]))])
    how = draw(st.sampled_from(["MORE", "AGAIN", "MORE", "OK"]))
    early_drop = False
    if how == "MORE":
        ev += [["X", a, S, "MORE say friend", "cur"]]
        if draw(st.integers(0, 3)) == 0:
            # the service is dropped while its challenge is still unanswered
            ev.append(["reconf", {"services": [list(s_) for s_ in conf["services"] if s_[0] != S]}])
            early_drop = True
        ev += [["P", a, draw(st.sampled_from(["mellon", "mellon", "a longer answer with blanks", "R" * 1050]))]]
    elif how == "AGAIN":
        ev += [["X", a, S, "AGAIN wrong password", "cur"], ["P", a, "+x acctA pwA2"]]
    for o in others:
        if draw(st.booleans()):
            ev.append(["X", a, o, "OK", "cur"])
    ev.append(["X", a, S, draw(st.sampled_from(["OK acctA:1", "OK acctA:1", "OK", "NO go away"])), "cur"])
    for o in others:
        if draw(st.booleans()):
            ev.append(["X", b, o, "OK", "cur"])
    if not early_drop:
        ev.append(["reconf", {"services": [list(s_) for s_ in conf["services"] if s_[0] != S]}])
    ev.append(["X", b, S, draw(st.sampled_from(["OK acctB:2", "OK acctB:2", "NO not you", "MORE riddle", "AGAIN later", "OK"])), "cur"])
    for o in others:
        ev.append(["X", b, o, "OK", "cur"])
        ev.append(["X", a, o, "OK", "cur"])
    ev += [["H", a], ["H", b]]
    if conf.get("timeout"):
        ev += [["!", a], ["!", b]]
    return ev


def slot_reuse_scenario(draw, conf):
    """A service answers a pending client for good (OK / MORE / AGAIN); a reload drops that service - nobody waits for it
    any more, so the daemon lets go of its record - and the same or a later reload configures another service (or the
    same name again).  The newcomer has neither been told about the client nor challenged it nor said OK: the client's
    next data event must ask it, and the client's next password is not an answer to a challenge of the newcomer."""
    named = [s_ for s_ in conf["services"] if s_[1].lower() in proto.PROTOCOLS]
    S = draw(st.sampled_from(named))
    cid = draw(st.sampled_from([0, 3, 12, 2000000000]))
    data = [["N", cid, "host.example.org"], ["u", cid, "ident"], ["n", cid, "Nick"], ["U", cid, "user", "real name"]]
    ev = [["C", cid, draw(st.sampled_from(IPS)), draw(st.integers(1, 65535))]] + list(draw(st.permutations(data)))
    ev.append(["P", cid, "%s acct pw" % draw(st.sampled_from(["+x!", "+!", "-x+!"]))])
    for o in conf["services"]:
        if o[0] != S[0] and draw(st.booleans()):
            ev.append(["X", cid, o[0], "OK", "cur"])
    if draw(st.booleans()):
        # somebody else was asked about the same services and is gone before any of them answered
        lv = cid + 1
        ev += [["C", lv, "10.9.9.9", 1111], ["N", lv, "pre.example.org"], ["u", lv, "pre"], ["n", lv, "Pre"], ["U", lv, "pre", "pre client"],
               ["P", lv, "+x other pw"]]
        how_ = draw(st.sampled_from(["D", "T", "C", "NO"]))
        if how_ == "C":
            ev += [["C", lv, "10.9.9.8", 1112], ["D", lv]]
        elif how_ == "NO":
            ev += [["X", lv, S[0], "NO go away", "cur"], ["D", lv]]
        else:
            ev += [[how_, lv]]
    late = None
    if draw(st.booleans()):
        # a client that has only been announced (or has delivered part of its data) when the table changes: it meets
        # the newcomer with a clean slate, is asked once, and further events of its own do not make the daemon ask again
        late = cid + 3
        ev += [["C", late, "10.9.9.6", 1114]] + ([["N", late, "late.example.org"]] if draw(st.booleans()) else [])
    waiter = None
    if draw(st.integers(0, 2)) == 0:
        # ... or somebody else still waits for the service when the reload drops it: its record outlives the reload
        # and goes later, outside any reload, when that client is answered (or leaves)
        waiter = cid + 2
        ev += [["C", waiter, "10.9.9.7", 1113], ["N", waiter, "w.example.org"], ["u", waiter, "wait"], ["n", waiter, "Waiter"], ["U", waiter, "wait", "waiting client"],
               ["P", waiter, "+x third pw"]]
    ev.append(["X", cid, S[0], draw(st.sampled_from(["OK", "MORE say friend", "MORE say friend", "AGAIN once more", "MORE "])), "cur"])
    free = [x for x in SVC_POOL if x not in [y[0] for y in conf["services"]]]
    T = [draw(st.sampled_from(free + [S[0]])), draw(st.sampled_from(["login", "login", "combined", "login-ipr", "dronecheck"]))]
    rest = [list(s_) for s_ in conf["services"] if s_[0] != S[0]]
    if waiter is None and draw(st.booleans()):
        ev.append(["reconf", {"services": rest + [T]}])
    else:
        ev.append(["reconf", {"services": rest}])
        if draw(st.booleans()):
            ev.append(["n", cid, "Nick1"])
        if waiter is not None:
            ev.append(draw(st.sampled_from([["X", waiter, S[0], "OK", "cur"], ["X", waiter, S[0], "AGAIN no", "cur"], ["D", waiter], ["x", waiter, S[0], "cur"]])))
        ev.append(["reconf", {"services": rest + [T]}])
    if late is not None:
        ev += [["N", late, "late.example.org"], ["U", late, "user", "late client"], ["u", late, "late"], ["n", late, "Late"]]
        if draw(st.booleans()):
            ev += [["P", late, "+x lateacct pw"]]
        ev += [t_ for t_ in [["n", late, "Late2"], ["u", late, "late2"], ["H", late], ["d", late]] if draw(st.booleans())]
        if draw(st.booleans()):
            ev += [["X", late, T[0], draw(st.sampled_from(["MORE riddle", "OK", "AGAIN no"])), "cur"], ["n", late, "Late3"], ["P", late, "an answer"]]
    tail = [["u", cid, "ident2"], ["n", cid, "Nick2"], ["P", cid, "+x! acct pw2"], ["P", cid, "mellon"], ["d", cid]]
    ev += [t_ for t_ in draw(st.permutations(tail)) if draw(st.integers(0, 3))]
    ev.append(["X", cid, T[0], draw(st.sampled_from(["OK acct:1", "OK", "MORE riddle", "NO go away"])), "cur"])
    ev.append(["P", cid, "+x acct pw3"])
    ev.append(["X", cid, T[0], "OK acct:2", "cur"])
    for o in rest:
        ev.append(["X", cid, o[0], "OK", "cur"])
    ev += [["H", cid], ["T", cid]]
    return ev


def crowd_events(draw):
    """A crowd: a few hundred clients announced in ascending (or descending) id order and all still pending, then
    traffic for the ones announced first (the request index must still find them, at the first attempt)."""
    n = draw(st.sampled_from([70, 140, 300]))
    ids = list(range(1, n + 1))
    if draw(st.booleans()):
        ids.reverse()
    ev = [["C", cid, "10.0.%d.%d" % (cid // 250, cid % 250), 1000 + cid] for cid in ids]
    if draw(st.booleans()):
        # the very first thing said about the clients announced first is that they are gone / registered
        ev += [[draw(st.sampled_from(["D", "T"])), cid] for cid in ids[:2]]
        ids = ids[2:]
    for cid in ids[:3] + ids[-2:]:
        ev += [["N", cid, "h%d.example.org" % cid], ["u", cid, "id%d" % cid], ["n", cid, "N%d" % cid], ["U", cid, "user", "real"]]
        ev.append([draw(st.sampled_from(["D", "T", "H"])), cid])
    for cid in ids[3:40]:
        ev.append(["D", cid])
    return ev


def table_growth_scenario(draw, conf):
    """A reload adds a service whose name sorts before (or between) the configured ones while a client is half-way
    through its registration: some services have been queried already, others are still waiting for data.  (Per-client
    bookkeeping that refers to table positions must survive the table being rebuilt.)"""
    cid = draw(st.sampled_from([3, 0, 41]))
    other = cid + 1
    data = [["N", cid, "host.example.org"], ["u", cid, "ident"], ["n", cid, "Nick"], ["U", cid, "user", "real name"]]
    data = list(draw(st.permutations(data)))
    cut = draw(st.integers(0, 3))
    ev = [["C", cid, draw(st.sampled_from(IPS)), draw(st.integers(1, 65535))]]
    if draw(st.booleans()):
        ev.append(["P", cid, "+x acct pw"])
    ev += data[:cut]
    if draw(st.booleans()):
        # another client may be waiting for one of the services meanwhile
        ev += [["C", other, "10.9.9.9", 999], ["N", other, "o.example.org"], ["u", other, "o"], ["n", other, "Other"], ["U", other, "o", "other"], ["P", other, "+ b pw"]]
    for s_ in conf["services"]:
        if draw(st.integers(0, 2)) == 0:
            ev.append(["X", cid, s_[0], draw(st.sampled_from(["OK", "AGAIN later", "OK acct:1"])), "cur"])
    newname = draw(st.sampled_from(["aaa.ex", "aaa.ex", "ccc.ex", "fff.ex", "zzz.ex"]))
    svcs = [list(s_) for s_ in conf["services"]] + [[newname, draw(st.sampled_from(proto.PROTOCOLS))]]
    ev.append(["reconf", {"services": svcs}])
    ev += data[cut:]
    if not any(e_[0] == "P" for e_ in ev if e_[1] == cid):
        ev.append(["P", cid, "+x acct pw"])
    for s_ in svcs:
        ev.append(["X", cid, s_[0], draw(st.sampled_from(["OK", "OK", "OK acct:1"])), "cur"])
        ev.append(["X", other, s_[0], "OK", "cur"])
    ev += [["H", cid]]
    return ev


EXTREME_IDS = [-2147483648, -2147483647, -2000000000, -1500000000, -2, 0, 5, 7, 1500000000, 2000000000, 2147483646, 2147483647,
               # ids that agree in their low 12 / 16 bits
               4101, 8197, 65541, 4103]


@st.composite
def history_s(draw, pid, tier, conf=None, max_clients=None, distinct_ids=False, maxlen=None):
    prof = PROFILES.get(pid, PROFILES["default"])
    kinds = expand(prof)
    rkinds = REPLY_KINDS.get(pid, REPLY_KINDS["default"])
    pww = (7, 2)
    if pid in ("C02", "C03"):
        pww = (8, 1, MODES + ["+!", "+x!", "-!", "+!"])
    if conf is None:
        conf = draw(conf_s(pid, tier))
    if pid in ("C02", "C03") and "iauth_xquery" not in conf["modules"] and "iauth_class" not in conf["modules"]:
        pass
    if pid in ("C02", "C03", "C05", "C06", "C10") and 1 <= len(conf["services"]) <= 5 and any(s_[1] in ("login", "login-ipr", "combined") for s_ in conf["services"]) \
            and "iauth_xquery" in conf["modules"] and draw(st.integers(0, 13)) == 0:
        return {"conf": conf, "events": shared_service_scenario(draw, conf)}
    if pid in ("C02", "C03", "C05", "C06", "C10") and 1 <= len(conf["services"]) <= 5 and "iauth_xquery" in conf["modules"] \
            and any(s_[1].lower() in proto.PROTOCOLS for s_ in conf["services"]) and draw(st.integers(0, 15)) == 0:
        return {"conf": conf, "events": slot_reuse_scenario(draw, conf)}
    if pid in ("C03", "C06", "C01") and draw(st.integers(0, 59)) == 0:
        return {"conf": conf, "events": crowd_events(draw)}
    if pid in ("C02", "C03", "C06") and 1 <= len(conf["services"]) <= 4 and "iauth_xquery" in conf["modules"] and draw(st.integers(0, 15)) == 0:
        return {"conf": conf, "events": table_growth_scenario(draw, conf)}
    big = tier == "thorough"
    nscripts = draw(st.integers(1, max_clients or (6 if big else 4)))
    if distinct_ids:
        ids = list(range(11, 11 + nscripts))
    else:
        if draw(st.integers(0, 6)) == 0:
            # ids are C ints: any value but -1 is a client, including ones further apart than INT_MAX
            pool = draw(st.lists(st.sampled_from(EXTREME_IDS), min_size=2, max_size=4, unique=True))
        else:
            pool = draw(st.lists(st.one_of(st.integers(0, 40), st.sampled_from([0, 0, 1])), min_size=1, max_size=3, unique=True))   # id 0 is a client like any other
        ids = [draw(st.sampled_from(pool)) for _ in range(nscripts)]
    scripts = []
    for cid in ids:
        if draw(st.integers(0, 3)) == 0:
            scripts.append(phased_script(draw, cid, conf, rkinds, pww))
            continue
        sc = [["C", cid, draw(st.sampled_from(IPS)), draw(st.integers(1, 65535))]]
        n = draw(st.integers(0, maxlen or (18 if big else 12)))
        for _ in range(n):
            sc.append(draw(event_s(cid, conf, kinds, rkinds, pww)))
        if draw(st.integers(0, 3)) > 0:
            sc.extend(completion(draw, cid, conf, sc, rkinds, pww))
            # extra rounds: a further (usually well-formed) password followed by another
            # reply per service - reaches re-login / challenge-response / second-stamp states
            for _ in range(draw(st.sampled_from([0, 0, 1, 1, 2]))):
                prev = [e_ for e_ in sc if e_[0] == "P"]
                if prev and draw(st.integers(0, 3)) == 0:
                    sc.append(list(prev[-1]))          # the very same credentials once more (a retry)
                else:
                    sc.append(["P", cid, draw(password_s((9, 1) + tuple(pww[2:])))])
                for s in draw(st.permutations([s[0] for s in conf["services"]])):
                    if draw(st.integers(0, 4)) > 0:
                        sc.append(["X", cid, s, draw(reply_s(rkinds)), "cur"])
            if draw(st.integers(0, 2)) == 0:
                for _ in range(draw(st.integers(1, 4))):
                    sc.append(draw(event_s(cid, conf, kinds, rkinds, pww)))
        scripts.append(sc)
    # interleave
    order = draw(st.lists(st.integers(0, nscripts - 1), max_size=sum(len(s) for s in scripts)))
    pos = [0] * nscripts
    events = []
    for i in order:
        if pos[i] < len(scripts[i]):
            events.append(scripts[i][pos[i]])
            pos[i] += 1
    for i in range(nscripts):
        events.extend(scripts[i][pos[i]:])
    if pid in ("C01", "C02", "C03", "C05", "C06", "C10") and events and len(conf["services"]) <= 5 and draw(st.integers(0, 8)) == 0:
        # the operator edits the service table and reloads while clients are being served: a removed service that
        # still owes answers keeps serving the clients that wait for it, new clients follow the new table
        svcs = [list(x) for x in conf["services"]]
        xs = [j for j, e_ in enumerate(events) if e_[0] in ("X", "x") and e_[-1] == "cur" and e_[2] in [y[0] for y in svcs]]
        if xs and draw(st.booleans()):
            # targeted: the service is dropped (or changes its protocol) shortly before one of its replies arrives,
            # i.e. most likely while it still owes that client an answer
            j = draw(st.sampled_from(xs))
            name = events[j][2]
            if draw(st.integers(0, 3)) > 0:
                svcs = [y for y in svcs if y[0] != name]
            else:
                svcs = [[y[0], draw(st.sampled_from(proto.PROTOCOLS))] if y[0] == name else y for y in svcs]
            events.insert(max(1, j - draw(st.sampled_from([0, 0, 1, 2, 4]))), ["reconf", {"services": [list(x) for x in svcs]}])
        for _ in range(draw(st.integers(0, 2))):
            e = draw(st.sampled_from(["drop", "drop", "add", "retype", "readd"]))
            if e == "drop" and svcs:
                svcs = [x for i, x in enumerate(svcs) if i != draw(st.integers(0, len(svcs) - 1))]
            elif e in ("add", "readd"):
                free = [x for x in SVC_POOL if x not in [y[0] for y in svcs]]
                if free:
                    svcs = svcs + [[draw(st.sampled_from(free)), draw(st.sampled_from(proto.PROTOCOLS))]]
            elif e == "retype" and svcs:
                i = draw(st.integers(0, len(svcs) - 1))
                svcs[i] = [svcs[i][0], draw(st.sampled_from(proto.PROTOCOLS))]
            events.insert(draw(st.integers(1, len(events))), ["reconf", {"services": [list(x) for x in svcs]}])
    # a nick may be sent again with nothing but its capitalisation changed
    ns = [e_ for e_ in events if e_[0] == "n" and len(e_) > 2]
    if len(ns) >= 2 and draw(st.integers(0, 2)) == 0:
        same = [(a_, b_) for a_ in ns for b_ in ns if a_ is not b_ and a_[1] == b_[1]]
        if same:
            a_, b_ = same[0]
            b_[2] = a_[2].swapcase()
    if pid in ("C01", "C02", "C03", "C10") and events and draw(st.integers(0, 11)) == 0:
        # the operator edits iauth.timeout and reloads while requests are pending: requests keep the timer (or the
        # absence of one) they were announced with, new ones follow the new setting
        for _ in range(draw(st.integers(1, 2))):
            events.insert(draw(st.integers(1, len(events))), ["reconf", {"timeout": draw(st.sampled_from([0, 0, 30, 45]))}])
    case = {"conf": conf, "events": events}
    if pid in ("C01", "C02", "C03", "C05", "C06", "C09", "C10", "default") and draw(st.integers(0, 7)) == 0:
        case["crlf"] = True        # this server ends its lines with CR LF
    return case


# ---------------------------------------------------------------------------
# running a case

def concretize(ev, spec):
    k = ev[0]
    if k == "raw":
        return ev[1]
    if k == "C":
        return "%d C %s %d %s" % (ev[1], ev[2], ev[3], proto.LOCAL)
    if k in ("N", "u", "n"):
        return "%d %s %s" % (ev[1], k, ev[2]) if len(ev) > 2 else "%d %s" % (ev[1], k)
    if k in ("d", "H", "D", "T"):
        return "%d %s" % (ev[1], k)
    if k == "U":
        return "%d U %s :%s" % (ev[1], ev[2], ev[3])
    if k == "P":
        return "%d P :%s" % (ev[1], ev[2])
    if k == "!":
        return "%d ! timeout" % ev[1]
    if k in ("X", "x"):
        cid, svc = ev[1], ev[2]
        sm = ev[4] if k == "X" else ev[3]
        if sm == "raw":
            tag = ev[5] if k == "X" else ev[4]
        else:
            c = spec.cur.get(cid)
            ser = c.serial if c is not None else 1
            if sm == "prev":
                ser = ser - 1 if ser > 1 else ser + 1
            elif sm == "next":
                ser = ser + 1
            tag = "%x_%x" % (cid & 0xffffffff, ser)
        if k == "X":
            return "-1 X %s %s :%s" % (svc, tag, ev[3])
        return "-1 x %s %s :Server not online" % (svc, tag)
    raise AssertionError(ev)


def moddir():
    return os.path.join(vc.build_daemon(), "modules")


def conf_text(conf):
    rules = []
    for r in conf.get("rules", []):
        if r[1] is None:
            rules.append((r[0], None, r[2]))
        else:
            rules.append((r[0], {k: v for k, v in r[1].items() if not k.startswith("_")}))
    return dm.render_conf(conf.get("modules", ["iauth_class", "iauth_xquery"]), moddir(),
                          timeout=conf.get("timeout") or None,
                          services=[tuple(s) for s in conf.get("services", [])],
                          rules=rules, logs=[tuple(l) for l in conf.get("logs", [])],
                          extra=conf.get("extra", ""), omit=tuple(conf.get("omit_sections", ())))


class Trace:
    def __init__(self):
        self.banner = []
        self.steps = []      # (line, out_lines, in_use)
        self.died = False
        self.hang = False
        self.rc = None
        self.rest = []
        self.stderr = ""
        self.spec = None


def policies_of(banner):
    for ln in banner:
        if ln.startswith("O S"):
            return ln[3:]
    return None


def run_lockstep(case, workdir, stop_on_violation=False, spec_hook=None):
    conf = proto.Conf(case["conf"])
    d = dm.Daemon(conf_text(case["conf"]), workdir)
    if case.get("crlf"):
        d.eol = b"\r\n"
    tr = Trace()
    try:
        try:
            tr.banner = [b.decode("latin-1") for b in d.start()]
        except dm.DaemonDied:
            tr.died = True
            tr.rc, rest, tr.stderr = d.finish()
            return tr
        spec = proto.Spec(conf, policies_of(tr.banner))
        tr.spec = spec
        curconf = case["conf"]
        for i, ev in enumerate(case["events"]):
            if ev[0] == "sleep":
                time.sleep(ev[1])
                # what the expired timers made the daemon say must already be on the channel, before the server
                # sends anything else (a verdict that only appears once more input arrives may come too late)
                o0 = d.drain(settle=0.4 if len(ev) > 2 else 0.05)
                in_use = None
                o1 = o2 = []
                if not (len(ev) > 2 and ev[2] == "quiet"):
                    try:
                        o1, _, _ = d.barrier()
                        o2, in_use, _ = d.barrier()
                    except dm.DaemonDied as e:
                        tr.died = True
                        break
                    except dm.DaemonHang:
                        tr.hang = True
                        break
                out = [b.decode("latin-1") for b in o0 + o1 + o2]
                spec.feed_sleep(i, ev[1])
                tr.steps.append(("(sleep %.1fs%s)" % (ev[1], " quiet" if in_use is None else ""), out, in_use))
                spec.feed_output(i, out)
                if in_use is not None:
                    spec.check_in_use(in_use)
                continue
            if ev[0] == "reconf":
                curconf = dict(curconf, **ev[1])
                try:
                    out, in_use, _ = d.reload(conf_text(curconf))
                except dm.DaemonDied as e:
                    tr.died = True
                    break
                except dm.DaemonHang:
                    tr.hang = True
                    break
                spec.conf = proto.Conf(curconf)
                spec.step, spec.in_kind, spec.in_client, spec.reply_ctx = i, "server", None, None
                spec.classes.add("reload_changes_timeout" if "timeout" in ev[1] else "reload_changes_services")
                out = [b.decode("latin-1") for b in out]
                tr.steps.append(("(reload %r)" % ev[1], out, in_use))
                spec.feed_output(i, out)
                spec.check_in_use(in_use)
                continue
            line = concretize(ev, spec)
            spec.feed_input(i, line)
            try:
                out, in_use, _ = d.step(line)
            except dm.DaemonDied as e:
                tr.died = True
                tr.steps.append((line, [b.decode("latin-1") for b in e.lines], None))
                break
            except dm.DaemonHang:
                # alive but silent: the monitors judge the silence (a due verdict or query is then missing)
                tr.hang = True
                tr.steps.append((line, [], None))
                spec.feed_output(i, [])
                break
            out = [b.decode("latin-1") for b in out]
            tr.steps.append((line, out, in_use))
            spec.feed_output(i, out)
            spec.check_in_use(in_use)
        if tr.hang:
            d.kill()
        else:
            tr.rc, rest, tr.stderr = d.finish()
            tr.rest = [b.decode("latin-1") for b in rest]
    finally:
        if d.p.poll() is None:
            d.kill()
    return tr


# ---------------------------------------------------------------------------
# hyprun interface

def make_context(pid, tier, widx, opts):
    root = os.path.join(vc.BUILD, "tmp", "%d-%d" % (os.getpid(), widx))
    os.makedirs(root, exist_ok=True)
    return {"pid": pid, "tier": tier, "root": root, "n": 0, "opts": opts}


def close_context(ctx):
    shutil.rmtree(ctx["root"], ignore_errors=True)


@st.composite
def timer_s(draw, pid, tier):
    """Real one-second timers: instances in various stages, a sleep past the expiry,
    then late traffic.  (Only real timers can show a timer outliving its request.)"""
    names = draw(st.permutations(SVC_POOL))[:draw(st.integers(0, 3))]
    tsec = draw(st.sampled_from([1, 1, 1, 2]))
    conf = {"modules": ["iauth_class", "iauth_xquery"], "services": [[n, draw(st.sampled_from(proto.PROTOCOLS))] for n in names],
            "timeout": tsec, "rules": [], "logs": [["*.>=info", "file:iauthd.log"]]}
    kinds = expand(PROFILES.get(pid, PROFILES["C10"]))
    kinds = [k for k in kinds if k != "!"]
    rk = REPLY_KINDS["default"]
    ev = []
    k0 = draw(st.integers(0, 5))
    if k0 == 0:
        # the operator has just raised the timeout (the new text extends the old one): clients announced from now on
        # must be given the long timeout, so the wait below does not expire their timers
        ev.append(["reconf", {"timeout": draw(st.sampled_from([10, 15, "1m", 100]))}])
    ids = draw(st.lists(st.integers(1, 4), min_size=2, max_size=5))      # small pool: ids recur, i.e. get re-announced
    for cid in ids:
        sc = [["C", cid, draw(st.sampled_from(IPS)), draw(st.integers(1, 65535))]]
        mode = draw(st.sampled_from(["random", "random", "complete", "pending", "pending"]))
        if mode == "pending":
            # all registration data delivered, queries (if any service is configured) left unanswered:
            # the request is complete except for soft holds when its timer fires or its id is re-announced
            data = [["N", cid, "host.example.org"], ["u", cid, "ident"], ["n", cid, "Nick"], ["U", cid, "user", "real name"]]
            if draw(st.booleans()):
                data.append(["P", cid, "+x acct pw"])
            sc.extend(draw(st.permutations(data)))
        else:
            for _ in range(draw(st.integers(0, 6))):
                sc.append(draw(event_s(cid, conf, kinds, rk, (7, 2))))
            if mode == "complete":
                sc.extend(completion(draw, cid, conf, sc, rk, (7, 2)))
        if mode == "pending" and draw(st.integers(0, 2)) == 0:
            # the server hurries the client up and then withdraws it (or sees it registered) well before its time is up
            sc += [["H", cid], [draw(st.sampled_from(["D", "T"])), cid]]
        ev.extend(sc)
    if k0 == 1:
        # ... or switches the timeout off while requests announced under it are pending: their timers still run
        ev.append(["reconf", {"timeout": 0}])
    if draw(st.booleans()):
        # nothing is sent during or right after the wait (no barrier): the next thing the server says is that it
        # withdraws or has registered some of the clients whose timers have just expired
        ev.append(["sleep", tsec + 0.6, "quiet"])
        for cid in draw(st.permutations(sorted(set(ids)))):
            ev.append([draw(st.sampled_from(["D", "T", "D", "H", "n"])), cid] if True else None)
            if ev[-1][0] == "n":
                ev[-1].append("Late")
    else:
        ev.append(["sleep", tsec + 0.35])
    for _ in range(draw(st.integers(0, 6))):
        ev.append(draw(event_s(draw(st.sampled_from(ids)), conf, kinds, rk, (7, 2))))
    if draw(st.booleans()):
        ev.append(["sleep", tsec + 0.35])
    return {"conf": conf, "events": ev}


@st.composite
def c10_s(draw, pid, tier):
    k = draw(st.integers(0, 59))
    if k == 0:
        return draw(timer_s(pid, tier))
    if k == 3:
        return {"conf": draw(conf_s(pid, tier)), "events": crowd_events(draw)}
    if k in (4, 5):
        # class rules that ask for a service's OK, evaluated after reloads have dropped / replaced that service
        import eng_proto2
        return draw(eng_proto2.c11_successor_s())
    base = draw(history_s(pid, tier))
    if k in (1, 2):
        # a long history: the generated block repeated R times on shifting (and recurring) ids,
        # hundreds to thousands of clients through one daemon
        R = draw(st.sampled_from([20, 50, 120] if tier == "quick" else [100, 400, 1500]))
        block = [e for e in base["events"] if e[0] not in ("raw", "reconf")]
        events = []
        for r in range(R):
            shift = (r % 7) * 41
            for e in block:
                e2 = list(e)
                e2[1] = e[1] + shift
                events.append(e2)
        base["events"] = events
        base["long"] = R
    return base


@st.composite
def with_timers_s(draw, pid, tier):
    # about one case in 80 uses real one-second timers (a timer that outlives its request, or
    # fires for a request that was replaced, only shows with real time)
    if draw(st.integers(0, 79)) == 0:
        return draw(timer_s(pid, tier))
    return draw(history_s(pid, tier))


def strategy(pid, tier, opts):
    if pid == "C10":
        return c10_s(pid, tier)
    if pid in ("C01", "C02", "C03"):
        return with_timers_s(pid, tier)
    return history_s(pid, tier)


NT_RULES = {
    "C01": lambda sp: bool({"late_event", "reannounce_live", "stale_reply"} & sp.classes) or any(c.late_events for c in sp.all),
    "C02": lambda sp: "nt_C02" in sp.classes,
    "C03": lambda sp: "nt_C03" in sp.classes,
    "C05": lambda sp: "nt_C05" in sp.classes,
    "C06": lambda sp: any(c.queried for c in sp.all),
    "C10": lambda sp: "reannounce_live" in sp.classes and len({c.end[0] for c in sp.all if c.end}) >= 3,
}


def evaluate(case, ctx):
    ctx["n"] += 1
    wd = os.path.join(ctx["root"], "c")
    if os.path.exists(wd):
        shutil.rmtree(wd, ignore_errors=True)
    res = CaseResult()
    tr = run_lockstep(case, wd)
    sp = tr.spec
    if sp is None:
        res.inconclusive = "daemon_did_not_start"
        return res
    res.violations = list(sp.viol)
    res.classes = set(sp.classes)
    if tr.died:
        res.inconclusive = "sut_died"
        res.classes.add("sut_died")
        res.notes.append("daemon died mid-history (see C08)")
    if tr.hang:
        res.inconclusive = "sut_hang"
    mem, arith, leak = dm.classify_stderr(tr.stderr)
    if mem:
        res.classes.add("sanitizer_memory_report")
    if arith:
        res.classes.add("sanitizer_arith_report")
    pid = ctx["pid"]
    if pid == "C10":
        eval_c10_exit(tr, res, mem, leak)
    rule = NT_RULES.get(pid)
    res.nontrivial = bool(rule and rule(sp))
    if len(sp.all) >= 2 and any(a.live and b.live for a in sp.all for b in sp.all if a is not b):
        res.classes.add("two_live_at_end")
    return res


def eval_c10_exit(tr, res, mem, leak):
    if any(e[0] == "(sleep" or e[0].startswith("(sleep") for e in tr.steps):
        res.classes.add("real_timer_case")
    if len(tr.steps) > 400:
        res.classes.add("long_history_over_400_events")
    if len(tr.steps) > 5000:
        res.classes.add("long_history_over_5000_events")
    if mem or tr.died:
        # request lifecycle on a well-formed history: C10 owns memory errors here (DESIGN 2.1a)
        res.violations.append(proto.Violation("C10", None, "memory_error", "sanitizer report / death while handling requests: %s" % (mem[:1] or ["daemon died, rc=%r" % tr.rc])))
        res.inconclusive = None
        return
    if tr.hang:
        return
    if tr.rc != 0 or leak:
        if leak:
            res.violations.append(proto.Violation("C10", None, "leak_at_exit", "leak report at exit: %s" % leak[:2]))
        elif not mem:
            res.violations.append(proto.Violation("C10", None, "unclean_exit", "exit status %r after end of input" % tr.rc))


# ---------------------------------------------------------------------------
# enumerated parts (DESIGN 2.2a, last column): schedule point at every gap of a
# script (C02, C03), every arrival order of the data items for one client (C06)

import itertools
import multiprocessing as _mp

ENUM_TABLES = [
    [],
    [["alpha.ex", "login"]],
    [["alpha.ex", "dronecheck"]],
    [["alpha.ex", "login-ipr"]],
    [["alpha.ex", "combined"]],
    [["alpha.ex", "login"], ["Beta.ex", "dronecheck"]],
    [["alpha.ex", "login"], ["Beta.ex", "login-ipr"], ["gamma.ex", "dronecheck"]],
    [["alpha.ex", "combined"], ["Beta.ex", "login"]],
]


def _conf(services, timeout=30, modules=None):
    return {"modules": modules or ["iauth_class", "iauth_xquery"], "services": services, "timeout": timeout,
            "rules": [["r1", {"class": "c1", "hostname": "*.example.org"}], ["r2", {"class": "c2"}]],
            "logs": [["*.>=info", "file:iauthd.log"]]}


def enum_timeout_cases():
    """Canonical single-client scripts x service tables, the timer firing at every gap."""
    cid = 7
    data = [["N", cid, "h.example.org"], ["u", cid, "ident"], ["n", cid, "Nick"], ["U", cid, "user", "real name"]]
    for services in ENUM_TABLES:
        names = [s[0] for s in services]
        variants = []
        for pw in (None, "+ acct pw", "+! acct pw", "+x! acct pw"):
            for rk in ("OK", "OK acct:1", "AGAIN later", "MORE say"):
                sc = [["C", cid, "10.1.2.3", 4000]]
                if pw:
                    sc.append(["P", cid, pw])
                sc += data
                for n in names:
                    sc.append(["X", cid, n, rk, "cur"])
                if rk.startswith("MORE"):
                    sc.append(["P", cid, "response"])
                    for n in names:
                        sc.append(["X", cid, n, "OK acct:1", "cur"])
                if pw and "!" in pw:
                    sc.append(["P", cid, "-! acct pw"])
                variants.append(sc)
        for sc in variants:
            for gap in range(1, len(sc) + 1):
                ev = sc[:gap] + [["!", cid]] + sc[gap:]
                yield {"conf": _conf(services), "events": ev}


def enum_order_cases():
    """Every arrival order of the five data items (x bare u / d / H position) for one client."""
    cid = 9
    for services in ENUM_TABLES[1:]:
        for host in (["N", cid, "h.example.org"], ["d", cid]):
            for ident in (["u", cid, "ident"], ["u", cid]):
                items = [host, ident, ["n", cid, "Nick"], ["U", cid, "user", "real name"], ["P", cid, "+x acct pw"]]
                for perm in itertools.permutations(items):
                    yield {"conf": _conf(services, 0), "events": [["C", cid, "10.1.2.3", 4000]] + [list(e) for e in perm]}
        items = [["N", cid, "h.example.org"], ["u", cid, "ident"], ["n", cid, "Nick"], ["U", cid, "user", "real name"], ["P", cid, "+x acct pw"]]
        for hpos in range(0, 6):
            ev = [["C", cid, "10.1.2.3", 4000]] + items[:hpos] + [["H", cid]] + items[hpos:]
            yield {"conf": _conf(services, 0), "events": ev}


def _enum_worker(args):
    pid, which, widx, nw = args
    ctx = make_context(pid, "quick", 100 + widx, {})
    n = nt = 0
    fails = []
    samples = []
    try:
        gen = enum_timeout_cases() if which == "timeout" else enum_order_cases()
        for i, case in enumerate(gen):
            if i % nw != widx:
                continue
            r = evaluate(case, ctx)
            n += 1
            if r.nontrivial:
                nt += 1
                if len(samples) < 1 and i % 53 == 0:
                    samples.append(case)
            for v in r.violations:
                if v.pid == pid and len(fails) < 3:
                    fails.append({"case": case, "sig": v.sig, "msg": v.msg})
                    break
    finally:
        close_context(ctx)
    return n, nt, fails, samples


def _aged_worker(args):
    """C10: the 16 'requests older than ten seconds' scenarios of C09, judged by C10's oracle (counter, clean exit)."""
    widx, nw = args
    import eng_proto2 as ep2
    ctx = make_context("C10", "quick", 400 + widx, {})
    n = 0
    fails, samples = [], []
    try:
        for i, case in enumerate(ep2.c09_aged_cases()):
            if i % nw != widx:
                continue
            r = evaluate(case, ctx)
            n += 1
            if i == 3:
                samples.append(case)
            for v in r.violations:
                if v.pid == "C10" and len(fails) < 2:
                    fails.append({"case": case, "sig": v.sig, "msg": v.msg})
                    break
    finally:
        close_context(ctx)
    return n, n, fails, samples


def extra_phase(pid, tier, seed):
    if pid == "C10":
        nw = vc.NCPU
        with _mp.get_context("fork").Pool(nw) as pool:
            rs = pool.map(_aged_worker, [(w, nw) for w in range(nw)])
        out = {"evaluations": 0, "nontrivial": 0, "fails": [], "classes": {}, "samples": [], "exhaustive_scope": None}
        for n, nt, fails, samples in rs:
            out["evaluations"] += n
            out["nontrivial"] += nt
            out["fails"].extend(fails)
            out["samples"].extend(samples)
        out["classes"]["requests_pending_over_10s_real_time"] = out["evaluations"]
        return out
    which = {"C01": "timeout", "C02": "timeout", "C03": "timeout", "C06": "order"}.get(pid)
    if which is None:
        return None
    nw = vc.NCPU
    with _mp.get_context("fork").Pool(nw) as pool:
        rs = pool.map(_enum_worker, [(pid, which, w, nw) for w in range(nw)])
    out = {"evaluations": 0, "nontrivial": 0, "fails": [], "classes": {}, "samples": [],
           "exhaustive_scope": ("the request timeout fired at every gap of 16 canonical single-client scripts (4 password variants x 4 reply kinds) for each of 8 service tables"
                                if which == "timeout" else
                                "every arrival order of the five data items (x N/d x ident/bare u) and every position of H for one client, for each of 7 service tables")}
    for n, nt, fails, samples in rs:
        out["evaluations"] += n
        out["nontrivial"] += nt
        out["fails"].extend(fails)
        out["samples"].extend(samples)
    out["classes"]["enumerated_cases"] = out["evaluations"]
    return out
