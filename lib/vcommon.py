"""Shared infrastructure: paths, builds from /repo's working tree, evidence,
known findings, worker fan-out, replay confirmation.

Nothing here knows about a specific property.
"""
import fcntl
import glob
import hashlib
import json
import os
import shutil
import subprocess
import sys
import time

VERIF = os.path.dirname(os.path.dirname(os.path.abspath(__file__)))
REPO = os.environ.get("VERIF_REPO", "/repo")
BUILD = os.path.join(VERIF, "build")
# Development aid: VERIF_REPO=<scratch worktree> runs the same checks against a
# scratch copy (seeded-change experiments) with separate build cache, evidence and
# replay directories, so registered runs against /repo are never disturbed.
SCRATCH = os.path.realpath(REPO) != "/repo"
REPO_TAG = ("-" + hashlib.sha256(os.path.realpath(REPO).encode()).hexdigest()[:8]) if SCRATCH else ""
EVIDENCE = os.path.join(BUILD, "scratch-evidence" + REPO_TAG) if SCRATCH else os.path.join(VERIF, "evidence")
REPLAYS = os.path.join(BUILD, "scratch-replays" + REPO_TAG) if SCRATCH else os.path.join(VERIF, "replays")
GUARD = "IAUTHD_C_VERIF"
NCPU = min(16, os.cpu_count() or 4)

SAN = ["-g", "-O1", "-fsanitize=address,undefined", "-fno-omit-frame-pointer"]
DEFS = ["-DHAVE_CONFIG_H", "-D" + GUARD,
        '-DSYSCONFDIR="/nonexistent/etc"', '-DMODULESDIR="/nonexistent/lib"',
        '-DLOGDIR="."']


class Proc:
    """A child process whose stdout / stderr go to temporary files, not pipes: several long-running children can then be
    started together and collected one after the other without any of them blocking on a full pipe."""

    def __init__(self, cmd, env=None, cwd=None):
        import tempfile
        os.makedirs(os.path.join(BUILD, "tmp"), exist_ok=True)
        self._out = tempfile.TemporaryFile(dir=os.path.join(BUILD, "tmp"))
        self._err = tempfile.TemporaryFile(dir=os.path.join(BUILD, "tmp"))
        self.p = subprocess.Popen(cmd, stdout=self._out, stderr=self._err, env=env, cwd=cwd)

    def communicate(self):
        self.p.wait()
        res = []
        for f in (self._out, self._err):
            f.seek(0)
            res.append(f.read())
            f.close()
        return res[0], res[1]

    @property
    def returncode(self):
        return self.p.returncode


class MachineryError(Exception):
    """The harness itself failed (build, tool): exit 2, never a verdict."""


def die(msg):
    sys.stderr.write("MACHINERY-ERROR: %s\n" % msg)
    sys.exit(2)


def seed_from_env():
    try:
        s = int(os.environ.get("VERIF_SEED", "1"))
    except ValueError:
        s = 1
    return s


# --------------------------------------------------------------------------
# building

def _incdir():
    """Directory holding autoconf.h: /repo's if configured, else our copy."""
    if os.path.exists(os.path.join(REPO, "autoconf.h")):
        return None
    return os.path.join(VERIF, "support")


def repo_sources():
    files = sorted(glob.glob(os.path.join(REPO, "src", "*.[ch]")) +
                   glob.glob(os.path.join(REPO, "modules", "*.[ch]")))
    ac = os.path.join(REPO, "autoconf.h")
    if os.path.exists(ac):
        files.append(ac)
    return files


def _hash(files, extra):
    h = hashlib.sha256()
    for f in files:
        h.update(f.encode())
        with open(f, "rb") as fh:
            h.update(fh.read())
    h.update(repr(extra).encode())
    return h.hexdigest()[:16]


def _run(cmd, cwd=None):
    p = subprocess.run(cmd, cwd=cwd, stdout=subprocess.PIPE, stderr=subprocess.STDOUT)
    if p.returncode != 0:
        raise MachineryError("build command failed: %s\n%s" % (" ".join(cmd), p.stdout.decode(errors="replace")[-4000:]))


def _parallel(cmds):
    procs = [(c, subprocess.Popen(c, stdout=subprocess.PIPE, stderr=subprocess.STDOUT)) for c in cmds]
    for c, p in procs:
        out = p.communicate()[0]
        if p.returncode != 0:
            raise MachineryError("build command failed: %s\n%s" % (" ".join(c), out.decode(errors="replace")[-4000:]))


def cached_build(kind, files, extra, builder):
    """Build <kind> into BUILD/<kind>-<hash>/ unless present; drop stale ones.

    builder(outdir) must create everything; a .ok file marks completion."""
    os.makedirs(BUILD, exist_ok=True)
    kind = kind + REPO_TAG
    h = _hash(files, extra)
    out = os.path.join(BUILD, "%s-%s" % (kind, h))
    if os.path.exists(os.path.join(out, ".ok")):
        return out
    with open(os.path.join(BUILD, ".lock-" + kind), "w") as lk:
        fcntl.flock(lk, fcntl.LOCK_EX)
        if os.path.exists(os.path.join(out, ".ok")):
            return out
        for old in glob.glob(os.path.join(BUILD, kind + "-*")):
            shutil.rmtree(old, ignore_errors=True)
        os.makedirs(out)
        builder(out)
        open(os.path.join(out, ".ok"), "w").close()
    return out


def inc_flags():
    fl = ["-I" + REPO]
    d = _incdir()
    if d:
        fl.append("-I" + d)
    return fl


def build_daemon():
    """The real daemon + the three shipped modules, ASan+UBSan, hooks on."""
    srcs = sorted(glob.glob(os.path.join(REPO, "src", "*.c")))
    mod = lambda *n: [os.path.join(REPO, "modules", x) for x in n]

    def builder(out):
        cc = ["gcc"] + SAN + DEFS + inc_flags() + ["-w"]
        os.makedirs(os.path.join(out, "modules"))
        sh = ["-fPIC", "-shared"]
        _parallel([
            cc + srcs + ["-o", os.path.join(out, "iauthd-c"), "-rdynamic", "-levent", "-lm", "-lrt", "-ldl"],
            cc + sh + mod("iauth_core.c", "iauth_misc.c") + ["-o", os.path.join(out, "modules", "iauth.so")],
            cc + sh + mod("iauth_xquery.c") + ["-o", os.path.join(out, "modules", "iauth_xquery.so")],
            cc + sh + mod("iauth_class.c") + ["-o", os.path.join(out, "modules", "iauth_class.so")],
        ])
    return cached_build("daemon", repo_sources(), (SAN, DEFS), builder)


def harness_path(*p):
    return os.path.join(VERIF, "harness", *p)


# --------------------------------------------------------------------------
# scratch directories

def case_root():
    d = os.path.join(BUILD, "tmp", str(os.getpid()))
    os.makedirs(d, exist_ok=True)
    return d


def cleanup_case_root():
    shutil.rmtree(os.path.join(BUILD, "tmp", str(os.getpid())), ignore_errors=True)


# --------------------------------------------------------------------------
# known findings

def known_findings(pid):
    """Entries of known_findings.json for property pid with status 'known'."""
    path = os.path.join(VERIF, "known_findings.json")
    if not os.path.exists(path):
        return []
    with open(path) as fh:
        data = json.load(fh)
    return [e for e in data.get("findings", []) if e.get("property") == pid and e.get("status") == "known"]


# --------------------------------------------------------------------------
# evidence

def write_evidence(pid, tier, seed, level, coverage, wall_s, violations, assumptions):
    os.makedirs(EVIDENCE, exist_ok=True)
    cov = dict(coverage)
    cov["evaluations"] = int(cov.get("evaluations", 0))
    cov["distinct_nontrivial"] = int(cov.get("distinct_nontrivial", 0))
    ev = {
        "property_id": pid, "tier": tier, "seed": int(seed), "level": level,
        "coverage": cov, "assumptions": list(assumptions),
        "wall_s": round(float(wall_s), 2), "violations": int(violations),
    }
    tmp = os.path.join(EVIDENCE, ".%s.json.tmp" % pid)
    with open(tmp, "w") as fh:
        json.dump(ev, fh, indent=1, sort_keys=False, default=str)
        fh.write("\n")
    os.replace(tmp, os.path.join(EVIDENCE, "%s.json" % pid))


def tool_versions():
    out = []
    try:
        out.append(subprocess.run(["gcc", "--version"], stdout=subprocess.PIPE).stdout.decode().splitlines()[0])
    except Exception:
        pass
    return out


# --------------------------------------------------------------------------
# replay files

def save_replay(pid, case):
    d = os.path.join(REPLAYS, pid)
    os.makedirs(d, exist_ok=True)
    blob = json.dumps(case, sort_keys=True, default=str)
    name = hashlib.sha256(blob.encode()).hexdigest()[:12] + ".json"
    path = os.path.join(d, name)
    with open(path, "w") as fh:
        json.dump(case, fh, indent=1, sort_keys=True, default=str)
        fh.write("\n")
    return path


def report_violation(pid, path):
    sys.stdout.write("VIOLATION property=%s replay=%s\n" % (pid, path))
    sys.stdout.flush()


class Timer:
    def __init__(self):
        self.t0 = time.time()

    def s(self):
        return time.time() - self.t0
