"""Protocol-level reference model and trace monitors for C01-C03, C05, C06,
C09 (addressing part), C10 and C11.

The model is written from the property statements and DESIGN.md section 4.1;
it looks only at the input lines and at the attributed output lines.
"""
import ipaddress
import re

NICKLEN, USERLEN, HOSTLEN, REALLEN, ACCOUNTLEN = 30, 10, 63, 50, 64
LOGIN_TYPES = ("login", "login-ipr", "combined")
PROTOCOLS = ("login", "login-ipr", "dronecheck", "combined")
ISSPACE = " \t\n\v\f\r"
LOCAL = "127.0.0.1 6667"
MAX_SERVICES = 32     # one bit per service-table slot in the per-client uint32_t masks (modules/iauth_xquery.c)
UNLINKED_TEXT = "The login server is currently disconnected.  Please excuse the inconvenience."


# ---------------------------------------------------------------------------
# parsing helpers (spec-level re-implementations, independent of the daemon)

def c_strtol(s, base):
    """Emulates strtol/strtoul: returns (value, rest) ; no conversion -> (0, s)."""
    i = 0
    n = len(s)
    while i < n and s[i] in ISSPACE:
        i += 1
    neg = False
    if i < n and s[i] in "+-":
        neg = s[i] == "-"
        i += 1
    if base == 16 and i + 2 < n and s[i] == "0" and s[i + 1] in "xX" and s[i + 2] in "0123456789abcdefABCDEF":
        i += 2
    digits = "0123456789abcdef"[:base]
    j = i
    v = 0
    while j < n and s[j].lower() in digits:
        v = v * base + digits.index(s[j].lower())
        j += 1
    if j == i:
        return 0, s
    return (-v if neg else v), s[j:]


def parse_line(line):
    """-> (id, argv) following the line protocol (id, up to 16 tokens, ':' trailing)."""
    cid, rest = c_strtol(line, 10)
    argv = []
    i = 0
    n = len(rest)
    while len(argv) < 16:
        while i < n and rest[i] in ISSPACE:
            i += 1
        if i >= n:
            break
        if rest[i] == ":":
            argv.append(rest[i + 1:])
            break
        j = i
        while j < n and rest[j] not in ISSPACE:
            j += 1
        argv.append(rest[i:j])
        i = j
    # C 'int' truncation of the id
    cid = ((cid + 2 ** 31) % 2 ** 32) - 2 ** 31
    return cid, argv


def parse_tag(tag):
    """Routing tag -> (id, serial) or None: the documented <hex id>_<hex serial>
    format read with strtol / strtoul semantics (sign, 0x prefix, clamping)."""
    v, rest = c_strtol(tag, 16)
    if rest == tag or not rest.startswith("_"):
        return None              # no id at all ("_5"), or no separator
    s, rest2 = c_strtol(rest[1:], 16)
    if rest2 != "" or rest[1:] == "":
        return None              # trailing text, or no serial at all ("5_")
    v = max(-2 ** 63, min(2 ** 63 - 1, v))
    cid = ((v + 2 ** 31) % 2 ** 32) - 2 ** 31
    if s < 0:
        s = 2 ** 64 - 1 if -s > 2 ** 64 - 1 else (2 ** 64 + s)
    s = min(s, 2 ** 64 - 1)
    return cid, s % 2 ** 32


def addr_value(text):
    """128-bit value of an address text (IPv4 identified with ::ffff:a.b.c.d)."""
    try:
        a = ipaddress.ip_address(text)
    except ValueError:
        return None
    if a.version == 4:
        return (0xffff << 32) | int(a)
    return int(a)


def canon_addr(v):
    """IPv4-compatible (::a.b.c.d, high 96 bits zero, not :: / ::1 style small) is
    identified with IPv4-mapped as C12 allows."""
    if v is None:
        return None
    if (v >> 32) == 0 and (v >> 16) != 0:
        return (0xffff << 32) | v
    return v


def server_addr_text(v):
    """The text the server itself (ircu's ircd_ntoa) prints for a 128-bit address value, or None where the notation is
    a matter of taste (IPv4-mapped and IPv4-compatible values).  "::" stands for the first of the longest runs of zero
    groups - a single zero group included - and a run at the very start is written "0::"."""
    if v is None or (v >> 32) in (0, 0xffff):
        return None
    g = [(v >> (16 * (7 - j))) & 0xffff for j in range(8)]
    best_s, best_n, cur = 0, 0, 0
    for i in range(9):
        if i < 8 and g[i] == 0:
            cur += 1
        else:
            if cur > best_n:
                best_s, best_n = i - cur, cur
            cur = 0
    if best_s == 0 and best_n == 1:
        best_n = 0
    out = ""
    i = 0
    while i < 8:
        if best_n > 0 and i == best_s:
            out += "0::" if i == 0 else ":"
            i += best_n
            continue
        out += "%x" % g[i]
        if i < 7:
            out += ":"
        i += 1
    return out


def glob_match(pat, s):
    """Minimal glob: '*' and '?' only (patterns are generated without [ and \\)."""
    pi = si = 0
    star = -1
    mark = 0
    while si < len(s):
        if pi < len(pat) and (pat[pi] == "?" or pat[pi] == s[si]) and pat[pi] != "*":
            pi += 1
            si += 1
        elif pi < len(pat) and pat[pi] == "*":
            star = pi
            mark = si
            pi += 1
        elif star >= 0:
            pi = star + 1
            mark += 1
            si = mark
        else:
            return False
    while pi < len(pat) and pat[pi] == "*":
        pi += 1
    return pi == len(pat)


def password_shape(text):
    """-> None if not '<modes> <account> <password>', else (set_modes, clr_modes, remainder)."""
    if not text or text[0] not in "+-":
        return None
    mset, mclr = set(), set()
    on = False
    i = 0
    while True:
        if i >= len(text):
            return None
        ch = text[i]
        if ch == " ":
            break
        i += 1
        if ch == "+":
            on = True
        elif ch == "-":
            on = False
        elif ch in "x!":
            if on:
                mset.add(ch)
                mclr.discard(ch)
            else:
                mclr.add(ch)
                mset.discard(ch)
    rem = text[i:].lstrip(" ")
    if " " not in rem:
        return None
    return mset, mclr, rem


# ---------------------------------------------------------------------------
# configuration as seen by the model

class Conf:
    def __init__(self, d):
        self.d = d
        self.modules = d.get("modules", ["iauth_class", "iauth_xquery"])
        self.xquery = "iauth_xquery" in self.modules or "iauth_class" in self.modules
        self.klass = "iauth_class" in self.modules
        t = d.get("timeout") or 0
        if isinstance(t, str):          # interval notation: plain seconds or <n>m
            t = int(t[:-1]) * 60 if t.endswith("m") else int(t)
        self.timeout = t
        self.services = {}
        for name, proto in d.get("services", []):
            self.services[name] = proto.lower() if proto.lower() in PROTOCOLS else None
        # a freshly started daemon fills its table in configuration order (names compared case-insensitively);
        # entries beyond the table's capacity are refused and count as not configured
        order = sorted(self.services, key=lambda n: n.lower().encode("latin-1"))
        for n in order[MAX_SERVICES:]:
            self.services[n] = None
        self.rules = []
        for r in d.get("rules", []):
            if r[1] is not None:
                self.rules.append((r[0], r[1]))
        self.rules.sort(key=lambda r: r[0].lower().encode("latin-1"))

    def configured(self, svc):
        return self.services.get(svc) is not None


# ---------------------------------------------------------------------------
# model state

class Inst:
    def __init__(self, cid, serial, ip, port, step, has_timer):
        self.id = cid
        self.serial = serial
        self.tag = "%x_%x" % (cid & 0xffffffff, serial)
        self.ip = ip
        self.addr = canon_addr(addr_value(ip))   # None: unparsable announcement, addressing not judged
        self.port = port
        self.birth = step
        self.live = True
        self.end = None          # ('verdict'|'D'|'T'|'replaced', step)
        self.has_timer = has_timer
        self.expired = None      # step at which the timeout expired
        self.host_known = False
        self.host = ""
        self.ident_known = False
        self.ident = ""
        self.bare_u = False
        self.nick_known = False
        self.nick = ""
        self.user_known = False
        self.user = ""
        self.real = ""
        self.hurry = False
        self.pw = None           # remainder of last well-formed password
        self.pw_any = False
        self.modes = set()
        self.owing = {}          # svc -> step the (first outstanding) query was emitted
        self.more = set()        # services that answered MORE and were not re-queried yet
        self.queried = {}        # svc -> [steps]
        self.accounts = []       # (svc, account) vouched by awaited login-capable services
        self.acct_proto = {}     # (svc, account) -> protocol of the service when it vouched
        self.ok = set()          # services that answered OK while awaited
        self.refused = False
        self.verdicts = []
        self.softdone = 0
        self.got_text_reply = False
        self.late_events = 0
        self.owed_ever = False
        self.bang_ever = False


class Violation:
    def __init__(self, pid, step, sig, msg):
        self.pid, self.step, self.sig, self.msg = pid, step, sig, msg

    def __repr__(self):
        return "%s@%s[%s] %s" % (self.pid, self.step, self.sig, self.msg)


CLIENT_CMDS = "oUuNIMCkDRd"
CLI_RE = re.compile(r"^([oUuNIMCkDRd]) (-?\d+) (\S+) (\d+)(?: (.*))?$")
X_RE = re.compile(r"^X (\S+) (\S+) :(.*)$")


class Spec:
    """Consumes (input line, output lines) per step; accumulates violations."""

    def __init__(self, conf, policies=None):
        self.last_proto = {}     # service -> protocol it had when last configured (a removed service that still owes
        #                          answers keeps serving the clients that wait for it)
        self.records = {}        # service -> number of queries the daemon counts as outstanding
        self.cur = {}
        self.classes = set()
        self.conf = conf
        self.policies = policies  # string after 'O S', None if no O line
        self.serial = 0
        self.cur = {}            # id -> Inst (current instance, live or not)
        self.by_tag = {}         # tag -> Inst
        self.all = []
        self.viol = []
        self.step = -1
        self.classes = set()
        self.notes = []
        self.expect_login = set()

    @property
    def conf(self):
        return self._conf

    @conf.setter
    def conf(self, c):
        self._conf = c
        self.last_proto.update({s_: p_ for s_, p_ in c.services.items() if p_})
        # the service records: a configured service has one; a service that a reload dropped keeps its record for as
        # long as a live client still awaits its answer.  When the record goes, so does everything clients remember
        # about that service: a service configured later - under the same name or another - starts from scratch with
        # every client.
        self.sweep_records()
        for s_, p_ in c.services.items():
            if p_:
                self.records.setdefault(s_, 0)

    def awaited(self, svc):
        return any(c.live and svc in c.owing for c in self.cur.values())

    def sweep_records(self):
        for s_ in [s_ for s_ in self.records if not self._conf.services.get(s_)]:
            if not self.awaited(s_):
                self.release_record(s_)

    def release_record(self, svc):
        del self.records[svc]
        self.classes.add("service_record_released")
        for c in self.cur.values():
            if c.live:
                if svc in c.more or svc in c.queried or svc in c.ok:
                    self.classes.add("client_forgets_released_service")
                c.more.discard(svc)
                c.queried.pop(svc, None)
                c.ok.discard(svc)

    # ----------------------------------------------------------- required
    def required(self):
        p = self.policies or ""
        req = {"host"}
        if "A" in p:
            req.add("user")
        if "U" in p:
            req.add("nick")
            req.add("ident")
        return req

    def data_ok(self, c):
        if c.hurry:
            return True
        have = set()
        if c.host_known:
            have.add("host")
        if c.user_known:
            have.add("user")
        if c.nick_known:
            have.add("nick")
        if c.ident_known:
            have.add("ident")
        return self.required() <= have

    def stamped(self, c):
        return any(a for (_, a) in c.accounts)

    def bang_ok(self, c):
        if not self.conf.xquery:
            return True
        return "!" not in c.modes or self.stamped(c)

    def live(self, cid):
        c = self.cur.get(cid)
        return c if c is not None and c.live else None

    def n_live(self):
        return sum(1 for c in self.cur.values() if c.live)

    def v(self, pid, sig, msg):
        self.viol.append(Violation(pid, self.step, sig, msg))

    def end(self, c, how):
        c.live = False
        c.end = (how, self.step)
        self.sweep_records()

    # -------------------------------------------------------------- input
    def prereq_done(self, c, proto):
        """Are the data items the protocol needs known (C06 statement)?"""
        four = c.hurry or (c.host_known and c.ident_known and c.nick_known and c.user_known)
        if proto == "login":
            return c.pw is not None
        if proto == "login-ipr":
            return c.pw is not None and (c.hurry or (c.host_known and c.ident_known))
        if proto in ("dronecheck", "combined"):
            return four
        return False

    def feed_input(self, step, line):
        self.step = step
        self.more_forwarded = set()
        self.more_expected = set()
        self.in_kind = None
        self.in_client = None
        self.reply_ctx = None
        cid, argv = parse_line(line)
        if not argv:
            return
        cmd = argv[0][0] if argv[0] else ""
        if cmd == "C":
            if len(argv) < 5:
                return
            old = self.cur.get(cid)
            if old is not None and old.live:
                self.end(old, "replaced")
                self.classes.add("reannounce_live")
            elif old is not None:
                self.classes.add("id_reuse")
            self.serial += 1
            port, _ = c_strtol(argv[2], 10)
            c = Inst(cid, self.serial, argv[1], port & 0xffff, step, self.conf.timeout > 0)
            c.timer_s = self.conf.timeout
            self.cur[cid] = c
            self.by_tag[c.tag] = c
            self.all.append(c)
            self.in_kind, self.in_client = "C", c
            self.pre = self.snapshot_prereq(c)
            return
        if cmd in ("X", "x"):
            self.in_kind = "reply"
            self.input_reply(cmd, argv)
            return
        if cid == -1:
            self.in_kind = "server"
            return
        c = self.live(cid)
        if c is None:
            old = self.cur.get(cid)
            if old is not None:
                old.late_events += 1
                self.classes.add("late_event")
            self.in_kind = "dead"
            return
        self.in_client = c
        self.in_kind = cmd
        self.in_argc = len(argv)
        self.pre = self.snapshot_prereq(c)
        if cmd == "D":
            self.end(c, "D")
        elif cmd == "T":
            self.end(c, "T")
        elif cmd == "N":
            if len(argv) >= 2:
                c.host_known = True
                if c.host == "":
                    c.host = argv[1][:HOSTLEN]
        elif cmd == "d":
            c.host_known = True
        elif cmd == "u":
            if len(argv) >= 2:
                c.ident = argv[1][:USERLEN]
                c.ident_known = True
            elif c.user_known:
                c.ident_known = True
            else:
                c.bare_u = True
        elif cmd == "n":
            if len(argv) >= 2:
                c.nick = argv[1][:NICKLEN]
                c.nick_known = True
        elif cmd == "U":
            if len(argv) >= 3:
                c.user = argv[1][:USERLEN]
                c.real = argv[2][:REALLEN]
                c.user_known = True
                if c.bare_u:
                    c.ident_known = True
        elif cmd == "H":
            c.hurry = True
        elif cmd == "P":
            if len(argv) >= 2 and self.conf.xquery:
                self.input_password(c, argv[1])
        elif cmd == "!":
            if len(argv) >= 1 and c.has_timer and c.expired is None:
                c.expired = step
                self.in_kind = "timeout"
                self.classes.add("timeout_with_debt" if c.owing else "timeout_no_debt")

    def feed_sleep(self, step, secs=None):
        """Real time passed: the timer of every live instance whose configured timeout is shorter than the wait has fired
        (instances remember the timeout that was configured when they were announced)."""
        self.step = step
        self.in_kind = "timeout"
        self.in_client = None
        self.reply_ctx = None
        self.sleep_step = True
        for c in self.cur.values():
            if secs is not None and c.has_timer and c.timer_s >= secs:
                continue
            if c.live and c.has_timer and c.expired is None:
                c.expired = step
                self.classes.add("real_timer_fired")
                self.classes.add("timeout_with_debt" if c.owing else "timeout_no_debt")
            elif not c.live and c.has_timer and c.expired is None:
                self.classes.add("timer_of_finished_request_due")

    def snapshot_prereq(self, c):
        return {s: self.prereq_done(c, p) for s, p in self.conf.services.items() if p}

    def input_password(self, c, text):
        c.pw_any = True
        if c.more and c.pw is not None:
            # challenge response: forwarded verbatim, not parsed for modes
            self.in_kind = "P-more"
            self.more_text = text
            # (a service that a reload has dropped meanwhile no longer exists for this purpose)
            self.more_expected = {s_ for s_ in c.more if self.conf.services.get(s_)}
            return
        shape = password_shape(text)
        if shape is None:
            self.in_kind = "P-bad"
            return
        mset, mclr, rem = shape
        c.modes -= mclr
        c.modes |= mset
        if "!" in c.modes:
            c.bang_ever = True
            self.classes.add("bang")
        if c.pw is not None:
            self.classes.add("second_password")
        c.pw = rem[:511]
        self.in_kind = "P-ok"

    def input_reply(self, cmd, argv):
        if len(argv) < 4:
            return
        svc, tag, reply = argv[1], argv[2], argv[3]
        t = parse_tag(tag)
        if t is None:
            return
        c = self.live(t[0])
        if c is None or c.serial != t[1]:
            if t is not None and self.cur.get(t[0]) is not None:
                self.classes.add("stale_reply")
            return
        if svc not in c.owing:
            self.classes.add("unawaited_reply")
            return
        proto = self.conf.services.get(svc) or self.last_proto.get(svc)
        if self.conf.services.get(svc) is None:
            self.classes.add("reply_from_removed_service_still_owing")
        kind = None
        if cmd == "x":
            kind = "unlinked"
        elif reply == "OK" or reply.startswith("OK "):
            kind = "OK"
        elif reply.startswith("NO "):
            kind = "NO"
        elif reply.startswith("AGAIN "):
            kind = "AGAIN"
        elif reply.startswith("MORE "):
            kind = "MORE"
        if kind is None:
            self.classes.add("unknown_reply_word")
            return
        since = c.owing.pop(svc)
        self.in_client = c
        self.reply_ctx = {"c": c, "svc": svc, "kind": kind, "reply": reply, "proto": proto,
                          "x_before": "x" in c.modes, "bang_before": "!" in c.modes}
        self.classes.add("reply_" + kind)
        if c.expired is not None:
            self.classes.add("reply_after_timeout")
        if kind == "OK":
            c.ok.add(svc)
            if reply.startswith("OK "):
                acct = reply[3:].split(" ")[0][:ACCOUNTLEN]
                c.got_text_reply = True
                self.reply_ctx["acct"] = acct
                if proto in LOGIN_TYPES:
                    c.accounts.append((svc, acct))
                    c.acct_proto[(svc, acct)] = proto
                    if acct == "":
                        self.classes.add("empty_account")
        elif kind == "NO":
            c.refused = True
            c.got_text_reply = True
        elif kind == "MORE":
            c.more.add(svc)
            c.got_text_reply = True
        elif kind == "AGAIN":
            c.got_text_reply = True
        self.sweep_records()

    # ------------------------------------------------------------- output
    def feed_output(self, step, lines):
        self.step = step
        self.expect_login = set()
        step_cli_lines = []
        for ln in lines:
            m = X_RE.match(ln)
            if m:
                self.out_query(m.group(1), m.group(2), m.group(3))
                continue
            m = CLI_RE.match(ln)
            if m and m.group(1) in "DRkdCMUNouI":
                self.out_client(m.group(1), int(m.group(2)), m.group(3), int(m.group(4)), m.group(5), ln)
                step_cli_lines.append((m.group(1), int(m.group(2)), m.group(5)))
        self.after_step(step_cli_lines)

    def out_query(self, svc, tag, text):
        c = self.by_tag.get(tag)
        if c is None or not c.live:
            self.v("C01", "query_for_dead", "query %r carries tag %s of no live instance" % (text, tag))
            return
        if self.cur.get(c.id) is not c:
            self.v("C01", "query_for_dead", "query carries tag %s of a replaced instance" % tag)
            return
        c.queried.setdefault(svc, []).append(self.step)
        c.owed_ever = True
        if svc not in c.owing:
            c.owing[svc] = self.step
        if text.startswith("MORE "):
            if svc not in c.more and self.conf.services.get(svc):
                self.v("C06", "more_forward_unasked", "a challenge response of %s was passed to %s, which has no challenge open with it" % (c.tag, svc))
            c.more.discard(svc)
        self.check_query(c, svc, text)

    def check_query(self, c, svc, text):
        """C06: timing and content of one query line."""
        proto = self.conf.services.get(svc)
        if proto is None and not (text.startswith("MORE ") and self.in_kind == "P-more" and svc in self.last_proto):
            # (a challenge response still goes to the service that asked, even if a reload has dropped it meanwhile)
            self.v("C06", "query_unconfigured", "query sent to %s which is not a configured service" % svc)
            return
        if self.in_client is not c and self.in_kind != "timeout":
            self.v("C06", "query_wrong_step", "query for %s emitted in a step of another client/event" % c.tag)
        first = len(c.queried[svc]) == 1
        # --- timing
        if text.startswith("MORE "):
            if self.in_kind != "P-more":
                self.v("C06", "more_forward_unexpected", "MORE forwarded outside a challenge response")
            elif text[5:] != self.more_text and not (len(text) > 900 and self.more_text.startswith(text[5:])):
                # (a response longer than the daemon's 1024-byte output line arrives cut short: not judged)
                self.v("C06", "more_forward_text", "challenge response altered: %r vs %r" % (text[5:], self.more_text))
            self.more_forwarded.add(svc)
            return
        if not self.prereq_done(c, proto):
            self.v("C06", "query_early", "%s (%s) queried before its data is known: %r" % (svc, proto, text))
        if not first and self.in_kind not in ("P-ok",):
            # several lines for one service in the same step (combined: CHECK then LOGIN) are one query
            if c.queried[svc][-2] != self.step:
                self.v("C06", "query_repeat", "%s queried again outside a password step" % svc)
        # --- content
        host = c.host if c.host else None
        if c.ident:
            user = c.ident[:USERLEN]
        elif c.user.startswith("~"):
            user = c.user[:USERLEN]
        elif c.user:
            user = ("~" + c.user)[:USERLEN]
        else:
            user = ""
        word = text.split(" ", 1)[0]
        if word == "CHECK":
            if proto not in ("dronecheck", "combined"):
                self.v("C06", "query_wrong_kind", "CHECK sent to %s service" % proto)
            if proto == "combined" and c.pw is not None:
                self.expect_login.add((c.tag, svc))
            m = re.match(r"^CHECK (\S*) (\S*) (\S+) (\S+) :(.*)$", text)
            if not m:
                self.v("C06", "query_format", "malformed CHECK %r" % text)
                return
            nick, usr, addr, hst, real = m.groups()
            if nick != c.nick or usr != user or m.group(5) != c.real:
                self.v("C06", "query_content", "CHECK carries %r, expected nick=%r user=%r real=%r" % (text, c.nick, user, c.real))
            self.check_addr_host(c, addr, hst, host, text)
        elif word == "LOGIN":
            self.expect_login.discard((c.tag, svc))
            if proto not in ("login", "combined"):
                self.v("C06", "query_wrong_kind", "LOGIN sent to %s service" % proto)
            if c.pw is None or text != "LOGIN " + c.pw:
                self.v("C06", "query_content", "LOGIN carries %r, expected credentials %r" % (text, c.pw))
        elif word == "LOGIN2":
            if proto != "login-ipr":
                self.v("C06", "query_wrong_kind", "LOGIN2 sent to %s service" % proto)
            m = re.match(r"^LOGIN2 (\S+) (\S+) (\S*) (.*)$", text)
            if not m:
                self.v("C06", "query_format", "malformed LOGIN2 %r" % text)
                return
            addr, hst, usr, cred = m.groups()
            if c.pw is None or cred != c.pw or usr != user:
                self.v("C06", "query_content", "LOGIN2 carries %r, expected user=%r cred=%r" % (text, user, c.pw))
            self.check_addr_host(c, addr, hst, host, text)
        else:
            self.v("C06", "query_format", "unknown query %r" % text)

    def check_addr_host(self, c, addr, hst, host, text):
        if c.addr is None:
            return
        if canon_addr(addr_value(addr)) != c.addr:
            self.v("C06", "query_addr", "query address %s is not the announced %s" % (addr, c.ip))
        elif addr != c.ip and server_addr_text(addr_value(c.ip)) == c.ip:
            # the server announced the address in its own notation: "exactly as the server reported" is then literal
            self.v("C06", "query_addr_text", "query address %s is written differently from the announced %s" % (addr, c.ip))
        if host is not None:
            if hst != host:
                self.v("C06", "query_content", "query host %r, expected %r" % (hst, host))
        elif canon_addr(addr_value(hst)) != c.addr:
            self.v("C06", "query_content", "query host field %r should be the address of %s" % (hst, c.ip))

    def out_client(self, cmd, cid, addr, port, tail, raw):
        c = self.cur.get(cid)
        if c is None:
            self.v("C01", "msg_unannounced", "message %r names id %d which was never announced" % (raw, cid))
            return
        if not c.live:
            self.v("C01", "msg_after_end", "message %r names id %d after its %s at step %s" % (raw, cid, c.end[0], c.end[1]))
            return
        # C09 addressing
        if c.addr is not None and (port != c.port or canon_addr(addr_value(addr)) != c.addr):
            self.v("C09", "bad_addressing", "message %r does not carry the announced %s %d" % (raw, c.ip, c.port))
        if cmd == "d":
            c.softdone += 1
            if c.softdone > 1:
                self.v("C01", "double_softdone", "second soft-done for %s" % c.tag)
            return
        if cmd in "DRk":
            c.verdicts.append((cmd, tail, self.step))
            if self.in_kind in ("reply", "timeout", "P-ok", "P-more", "P-bad") or c.expired is not None:
                self.classes.add("nt_C03")
            self.classes.add("verdict_" + cmd)
            if len(c.verdicts) > 1:
                self.v("C01", "double_verdict", "second verdict %r for %s" % (raw, c.tag))
            if cmd in "DR":
                self.check_accept(c, cmd, tail, raw)
            else:
                self.check_kill(c, tail, raw)
            self.end(c, "verdict")
            return
        # other client messages: C (challenge), M (mode), U/u/o/N/I
        rc = self.reply_ctx
        if cmd == "C":
            if rc is None or rc["c"] is not c:
                self.v("C05", "challenge_wrong_client", "challenge %r not caused by a reply for this client" % raw)
            else:
                rc.setdefault("challenges", []).append(tail)
        elif cmd == "M":
            if rc is None or rc["c"] is not c:
                self.v("C05", "mode_wrong_client", "mode line %r not caused by a reply for this client" % raw)
            else:
                rc.setdefault("modes", []).append(tail)
        elif cmd == "U":
            c.trusted_user = tail

    def check_kill(self, c, tail, raw):
        rc = self.reply_ctx
        if rc is None or rc["c"] is not c or rc["kind"] != "NO":
            self.v("C05", "kill_without_no", "rejection %r without an awaited NO for this client in this step" % raw)
            return
        want = ":" + rc["reply"][3:]
        if tail != want and not (len(want) > 900 and len(tail) > 900 and want.startswith(tail)):
            self.v("C05", "kill_text", "rejection text %r differs from the service's %r" % (tail, want))
        rc["killed"] = True

    def check_accept(self, c, cmd, tail, raw):
        # ---- C02
        if not self.data_ok(c):
            self.v("C02", "accept_missing_data", "%s accepted before required data (%s) was delivered" % (c.tag, sorted(self.required())))
        if c.owing and c.expired is None:
            self.v("C02", "accept_unanswered", "%s accepted while %s still owe(s) an answer and no timeout expired" % (c.tag, sorted(c.owing)))
        if self.conf.xquery and "!" in c.modes and not self.stamped(c):
            sig = "accept_bang_empty_account" if any(a == "" for _, a in c.accounts) else "accept_bang_unstamped"
            self.v("C02", sig, "%s accepted although it demanded +! and holds no account stamp" % c.tag)
        if c.refused:
            self.v("C02", "accept_refused", "%s accepted after an awaited NO" % c.tag)
        if c.owed_ever or c.bang_ever:
            self.classes.add("nt_C02")
        # ---- C05 account
        parts = (tail or "").split(" ") if tail else []
        acct = None
        klass = None
        if cmd == "R":
            if not parts:
                self.v("C09", "bad_grammar", "R without account: %r" % raw)
            else:
                acct = parts[0]
                klass = parts[1] if len(parts) > 1 else None
            offered = [a for (_, a) in c.accounts if a]
            if acct not in offered:
                self.v("C05", "account_not_vouched", "%s accepted with account %r which no awaited login service vouched (vouched: %r)" % (c.tag, acct, offered))
            elif len(parts) > 2 and not any(" " in (f_.get("class") or n_) for n_, f_ in self.conf.rules):
                # the stamp is one word, the class (no configured class contains a blank) at most one more: anything
                # else is text that rode along with the stamp
                self.v("C05", "account_stamp_not_exact", "%s accepted with %r after the address: more than the vouched stamp %r and a class" % (c.tag, tail, acct))
        else:
            klass = parts[0] if parts else None
            strong = [a for (s, a) in c.accounts if a and c.acct_proto.get((s, a)) in ("login", "login-ipr")]
            if strong:
                self.v("C05", "account_dropped", "%s accepted without the account %r vouched by a login service" % (c.tag, strong))
        if klass is not None and klass.startswith(":"):
            klass = klass[1:]
        c.accept = (cmd, acct, klass)
        self.check_class(c, acct, klass, raw)

    # ------------------------------------------------------------- C11
    def expected_class(self, c, acct):
        for name, f in self.conf.rules:
            if "account" in f:
                a = (acct or "").split(":")[0]
                if not glob_match(f["account"], a):
                    continue
            if "address" in f:
                net, bits = f["_mask"] if "_mask" in f else (None, 0)
                if bits:
                    if c.addr is None or (c.addr >> (128 - bits)) != (net >> (128 - bits)):
                        continue
            if "username" in f and not glob_match(f["username"], c.ident):
                continue
            if "hostname" in f and not glob_match(f["hostname"], c.host):
                continue
            if "xreply_ok" in f and not any(s.lower() == f["xreply_ok"].lower() for s in c.ok):
                continue
            return name, f
        return None, None

    def check_class(self, c, acct, klass, raw):
        if not self.conf.klass:
            if klass is not None:
                self.v("C11", "class_without_module", "class %r assigned without class module" % klass)
            return
        name, f = self.expected_class(c, acct)
        want = None
        if name is not None:
            want = f.get("class", name)
        # class names are limited to CLASSLEN (63) bytes; the copy keeps 62 of a longer name - either cut is accepted
        ok = klass == want or (want is not None and len(want) > 62 and klass in (want[:62], want[:63]))
        if not ok:
            self.v("C11", "wrong_class", "%s got class %r, first matching rule %r gives %r" % (c.tag, klass, name, want))
        tu = getattr(c, "trusted_user", None)
        truthy = ("1", "true", "on", "enabled", "yes")
        if name is not None and f.get("trust_username") in truthy and c.ident.startswith("~"):
            wantu = c.user[1:] if c.user.startswith("~") else c.user
            if tu != wantu:
                self.v("C11", "trust_username", "%s: expected trusted user name %r, saw %r" % (c.tag, wantu, tu))
            self.classes.add("trust_username")
        elif tu is not None:
            self.v("C11", "trust_username_unexpected", "%s: unexpected U %r" % (c.tag, tu))
        if name is not None:
            idx = [n for n, _ in self.conf.rules].index(name)
            if idx > 0:
                self.classes.add("nt_C11")
            self.classes.add("class_rule_hit")
        elif self.conf.rules:
            self.classes.add("class_no_rule")
            self.classes.add("nt_C11")

    # ------------------------------------------------------- end of step
    def after_step(self, cli_lines):
        rc = self.reply_ctx
        for tag, svc in sorted(self.expect_login):
            self.v("C06", "login_not_forwarded", "combined service %s got a CHECK for %s without the LOGIN line although a well-formed password is known" % (svc, tag))
        # ---- C05: relays caused by this step's reply
        if rc is not None:
            c = rc["c"]
            ch = rc.get("challenges", [])
            if rc["kind"] in ("MORE", "AGAIN"):
                want = ":" + rc["reply"][len(rc["kind"]) + 1:]
                if ch != [want] and not (len(want) > 900 and len(ch) == 1 and len(ch[0]) > 900 and want.startswith(ch[0])):
                    # (a text longer than the daemon's 1024-byte output line arrives cut short: the cut is not judged)
                    self.v("C05", "relay_text", "%s %r relayed as %r" % (rc["kind"], want, ch))
            elif rc["kind"] == "unlinked":
                pass
            elif ch:
                self.v("C05", "challenge_unexpected", "challenge %r after %s" % (ch, rc["kind"]))
            if rc["kind"] == "NO" and not rc.get("killed"):
                self.v("C05", "no_not_rejected", "awaited NO for %s did not reject it in this step" % c.tag)
            if rc["kind"] == "OK" and rc.get("acct") and rc["proto"] in LOGIN_TYPES and rc["x_before"]:
                if ":+x" not in rc.get("modes", []):
                    self.v("C05", "missing_plus_x", "%s asked for +x, account vouched, but no M +x in this step" % c.tag)
            for (cmd, cid, tail) in cli_lines:
                if cid != c.id:
                    self.v("C05", "reply_other_client", "reply for %s produced a message for client %d" % (c.tag, cid))
        # ---- C06: a challenge response goes to every service that asked for one, in this step
        if self.in_kind == "P-more" and self.in_client is not None and self.in_client.live:
            for svc in sorted(getattr(self, "more_expected", set()) - getattr(self, "more_forwarded", set())):
                self.v("C06", "more_not_forwarded", "the challenge response of %s was not passed on to %s" % (self.in_client.tag, svc))
        # ---- C06: queries that should have been sent in this step
        c = self.in_client
        if c is not None and self.in_kind not in (None, "reply", "dead", "server", "D", "T") and self.conf.xquery and (c.live or c.end[1] == self.step and c.end[0] == "verdict"):
            for svc, proto in self.conf.services.items():
                if not proto:
                    continue
                now = self.prereq_done(c, proto)
                was = self.pre.get(svc, False) if self.in_kind != "C" else False
                if now and not was and svc not in c.queried:
                    self.v("C06", "query_missing", "%s (%s) was not queried about %s in the step that completed its data" % (svc, proto, c.tag))
                elif now and svc not in c.queried and (self.in_kind in ("d", "u", "H") or (self.in_kind == "n" and getattr(self, "in_argc", 0) >= 2)):
                    # its data was complete before (the service came with a reload, or a namesake's record was
                    # released): the daemon looks at the table on every data event, so this one must ask
                    self.v("C06", "query_skipped", "%s (%s), configured and never asked about %s, was not queried on a data event (%s) although its data is complete" % (svc, proto, c.tag, self.in_kind))
                if now and self.in_kind == "P-ok" and proto != "dronecheck" and self.step not in c.queried.get(svc, []):
                    # a well-formed password is data the login protocols need: it has to reach every
                    # login-capable service whose other prerequisites are complete, in this step
                    # (otherwise a retry after AGAIN, or a password sent after the CHECK of a combined
                    # service went out, would silently never be forwarded)
                    self.v("C06", "login_not_forwarded", "%s (%s) did not receive the credentials of the well-formed password delivered for %s in this step" % (svc, proto, c.tag))
        # ---- C03
        for c in self.cur.values():
            if not c.live:
                continue
            if not self.data_ok(c) or not self.bang_ok(c):
                continue
            pending = [s for s, since in c.owing.items() if not (c.expired is not None and since <= c.expired)]
            if pending:
                continue
            sig = "stuck"
            if c.expired is not None and self.in_kind == "reply":
                sig = "stuck_reply_after_timeout"
            elif self.in_kind == "P-ok":
                sig = "stuck_after_password"
            elif self.in_kind == "reply" and "!" in c.modes:
                sig = "stuck_bang_reply"
            elif c.expired is not None:
                sig = "stuck_after_timeout"
            self.v("C03", sig, "%s is live, has all required data, no unanswered query (or an expired timeout) and no unmet +!, yet no verdict (event kind %s)" % (c.tag, self.in_kind))
        # non-trivial markers
        if c is not None and self.in_kind in ("reply",) and rc is not None and c.got_text_reply:
            self.classes.add("nt_C05")

    def check_in_use(self, in_use):
        if in_use is not None and in_use != self.n_live():
            self.v("C10", "in_use_mismatch", "daemon reports %d requests in use, model has %d live clients" % (in_use, self.n_live()))
