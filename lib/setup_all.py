import os, sys
sys.path.insert(0, os.path.dirname(os.path.abspath(__file__)))
import vcommon as vc
import importlib
try:
    vc.build_daemon()
    for m in ("eng_set", "eng_addr", "eng_conf", "eng_log", "eng_mod", "eng_proto3"):
        try:
            mod = importlib.import_module(m)
        except ImportError:
            continue
        if hasattr(mod, "setup"):
            mod.setup()
    print("setup ok")
except vc.MachineryError as e:
    vc.die(str(e))
