"""E-proto, part 2: differential / metamorphic / grammar oracles
(C04, C07, C08, C09, C11) on top of eng_proto."""
import os
import re
import time
import shutil
import string
import threading

from hypothesis import strategies as st

import daemon as dm
import eng_proto as ep
import proto
import vcommon as vc
from hyprun import CaseResult

make_context = ep.make_context
close_context = ep.close_context


def V(pid, sig, msg, step=None):
    return proto.Violation(pid, step, sig, msg)


# ===========================================================================
# C04: stray replies change nothing

STRAY_KINDS = ["stale", "stale", "stale", "stale_any", "stale_shape", "stale_shape", "badtag", "badtag", "unknown_svc",
               "not_awaited", "not_awaited", "not_awaited", "not_awaited", "case_svc", "future", "svc_near", "svc_near"]
BAD_TAGS = ["_%(ser)x", "%(id)x_", "%(id)x", "%(id)x-%(ser)x", "%(id)x_%(ser)xz", "%(id)x_%(ser)x_", "g%(id)x_%(ser)x", "%(id)x_", "_%(ser)x",
            "%(id)x_%(ser)x %(ser)x", "%(id)x__%(ser)x", "0x_%(ser)x", "%(id)x_-",
            # white space other than a blank inside the tag: it ends the word like a blank does
            "%(id)x_\t%(ser)x", "%(id)x_\x0b%(ser)x", "%(id)x_\x0c%(ser)x", "%(id)x_\r%(ser)x", "%(id)x\t_%(ser)x", "%(id)x_\t%(ser)x"]


@st.composite
def c04_s(draw, pid, tier, opts=None):
    base = draw(ep.history_s("C04", tier))
    # optional filler announcements so that serial numbers get several hex digits
    k = draw(st.sampled_from([0, 0, 0, 0, 14, 15, 16, 30, 255, 256]))
    if k:
        filler = []
        for i in range(k):
            filler.append(["C", 99, "127.0.0.1", 1000 + i % 50000])
        filler.append(["D", 99])
        base["events"] = filler + base["events"]
    if draw(st.integers(0, 9)) == 0 and base["conf"]["services"]:
        # service names are not limited to the 63 characters of an IRC server name
        ren = {s_[0]: ("a-rather-long-service-name." * 3)[:63] + s_[0] for s_ in base["conf"]["services"]}
        for s_ in base["conf"]["services"]:
            s_[0] = ren[s_[0]]
        for e in base["events"]:
            if e[0] in ("X", "x") and e[2] in ren:
                e[2] = ren[e[2]]
    logins = [s_[0] for s_ in base["conf"]["services"] if s_[1] in ("login", "login-ipr", "combined")]
    long_answer = None
    if logins and "iauth_xquery" in base["conf"]["modules"] and draw(st.integers(0, 11)) == 0:
        # scenario "the query that was never sent": a client answers a challenge with a response so long that the
        # query line does not fit the daemon's output line; whether the service owes an answer afterwards is read off
        # the query the daemon did (or did not) write, and a reply of that service follows
        S = draw(st.sampled_from(logins))
        cid = draw(st.sampled_from([5, 1, 77]))
        ans = draw(st.sampled_from(["R" * 1050, "R" * 1050, "w " * 520, "R" * 985, "R" * 2100, "short"]))
        ev = [["C", cid, draw(st.sampled_from(ep.IPS)), 4242], ["N", cid, "host.example.org"], ["u", cid, "ident"], ["n", cid, "Nick"],
              ["U", cid, "user", "real name"], ["P", cid, "%s acct pw" % draw(st.sampled_from(["+x!", "+!", "+x"]))],
              ["X", cid, S, "MORE say friend", "cur"], ["P", cid, ans]]
        long_answer = (cid, S, len(base["events"]) + len(ev))
        base["events"] = base["events"] + [e for e in ev] + [["H", cid], ["T", cid]]
    if long_answer is None and logins and "iauth_xquery" in base["conf"]["modules"] and draw(st.integers(0, 15)) == 0:
        # scenario "the challenger is gone": a service challenges a client and is dropped by a reload while another
        # client still waits for it (so the daemon keeps its record); the challenged client answers - the answer has
        # nowhere to go, no query is written - and the service then sends a reply with the client's tag
        S = draw(st.sampled_from(logins))
        a_, b_ = draw(st.sampled_from([(5, 6), (6, 5), (1, 77)]))
        ev = []
        for cid in (a_, b_):
            ev += [["C", cid, draw(st.sampled_from(ep.IPS)), 4242 + cid], ["P", cid, "%s acct%d pw" % (draw(st.sampled_from(["+x!", "+!", "+x"])), cid)]]
        ev += [["X", a_, S, "MORE say friend", "cur"],
               ["reload", [list(x) for x in base["conf"]["services"] if x[0] != S]],
               ["P", a_, draw(st.sampled_from(["mellon", "a longer answer", "+x acct5 pw2"]))]]
        long_answer = (a_, S, len(base["events"]) + len(ev))
        base["events"] = base["events"] + ev + [["N", a_, "host.example.org"], ["u", a_, "ident"], ["n", a_, "Nick"], ["U", a_, "user", "real name"], ["H", a_], ["T", a_], ["D", b_]]
    n = len(base["events"])
    ids = sorted({e[1] for e in base["events"] if e[0] == "C"})
    stray = {
        "kind": draw(st.sampled_from(STRAY_KINDS)),
        "id": draw(st.sampled_from(ids)),
        "svc_i": draw(st.integers(0, 5)),
        "reply": draw(ep.reply_s(["OK", "OKA", "OKA", "NO", "NO", "AGAIN", "MORE", "MORE"])),
        "unlinked": draw(st.integers(0, 7)) == 0,
        "badtag": draw(st.sampled_from(BAD_TAGS)),
        "shape": draw(st.sampled_from(["prefix", "prefix", "times16", "plus16", "lead0", "drop_last", "append0", "upper"])),
        "pick": draw(st.integers(0, 50)),
        "pos": draw(st.integers(k + 1 if k else 0, n)),
        "twice": draw(st.integers(0, 4)) == 0,      # the same stray line arrives twice in a row
        "crtail": draw(st.integers(0, 9)) == 0,
    }
    if long_answer is not None:
        stray.update({"kind": "not_awaited", "id": long_answer[0], "svc_name": long_answer[1], "pos": long_answer[2], "crtail": False,
                      "reply": draw(st.sampled_from(["OK acct:1", "NO go away", "OK", "AGAIN once more", "MORE another riddle"]))})
        base["stray"] = stray
        return base
    # optional reloads in the middle of the history (service table edited): both runs perform them
    if draw(st.integers(0, 3)) == 0 and n > 2:
        svcs = [list(x) for x in base["conf"]["services"]]
        for _ in range(draw(st.integers(1, 2))):
            e = draw(st.sampled_from(["drop", "add", "drop", "add", "retype"]))
            if e == "drop" and svcs:
                svcs = [x for i, x in enumerate(svcs) if i != draw(st.integers(0, len(svcs) - 1))]
            elif e == "add":
                free = [x for x in ep.SVC_POOL if x not in [y[0] for y in svcs]]
                if free:
                    svcs = svcs + [[draw(st.sampled_from(free)), draw(st.sampled_from(proto.PROTOCOLS))]]
            elif e == "retype" and svcs:
                i = draw(st.integers(0, len(svcs) - 1))
                svcs[i] = [svcs[i][0], draw(st.sampled_from(proto.PROTOCOLS))]
            pos = draw(st.integers(1, len(base["events"])))
            base["events"].insert(pos, ["reload", [list(x) for x in svcs]])
        n = len(base["events"])
        stray["pos"] = draw(st.integers(0, n))
    # scenario "table slot reuse": a service is dropped by one reload while clients may still wait for it,
    # a later reload adds a brand-new service; the stray line comes from that new service
    if draw(st.integers(0, 7)) == 0 and base["conf"]["services"] and not any(e[0] == "reload" for e in base["events"]):
        svcs = [list(x) for x in base["conf"]["services"]]
        drop_i = draw(st.integers(0, len(svcs) - 1))
        after_drop = [x for i, x in enumerate(svcs) if i != drop_i]
        free = [x for x in ep.SVC_POOL if x not in [y[0] for y in svcs]]
        if free:
            newname = draw(st.sampled_from(free))
            after_add = after_drop + [[newname, draw(st.sampled_from(proto.PROTOCOLS))]]
            ne = len(base["events"])
            p1 = draw(st.integers(1, ne))
            base["events"].insert(p1, ["reload", after_drop])
            p2 = draw(st.integers(p1 + 1, ne + 1))
            base["events"].insert(p2, ["reload", after_add])
            stray["kind"] = "not_awaited"
            stray["svc_name"] = newname
            stray["pos"] = draw(st.integers(p2 + 1, len(base["events"])))
            base["stray"] = stray
            return base
    # scenario "serial distance": two instances of one id exactly 16 / 256 / 4096 / 65536 announcements apart (so that
    # their serials agree in the low 4 / 8 / 12 / 16 bits), and a late reply for the departed one
    cs = {}
    for j, e in enumerate(base["events"]):
        if e[0] == "C" and e[1] != 99:
            cs.setdefault(e[1], []).append(j)
    multi = sorted(i_ for i_, v in cs.items() if len(v) >= 2)
    if multi and draw(st.integers(0, 7)) == 0 and not any(e[0] == "reload" for e in base["events"]):
        cid = draw(st.sampled_from(multi))
        p1, p2 = cs[cid][0], cs[cid][1]
        d = sum(1 for e in base["events"][p1 + 1:p2 + 1] if e[0] == "C")
        G = draw(st.sampled_from([16, 256, 4096, 65536, 65536] + ([1 << 20] if tier == "thorough" else [])))
        if G > d:
            base["events"].insert(p2, ["gap", G - d])
            stray.update({"kind": "stale_gap", "gap": G, "id": cid, "pos": draw(st.integers(p2 + 2, len(base["events"])))})
            xs2 = [j for j, e in enumerate(base["events"]) if j > p2 and e[0] == "X" and e[1] == cid and e[4] == "cur"]
            if xs2 and draw(st.booleans()):
                j = draw(st.sampled_from(xs2))
                stray["svc_name"] = base["events"][j][2]
                stray["pos"] = j
            base["stray"] = stray
            return base
    # "shadow" an existing reply: same client and service, inserted right before it, so that the
    # stray line arrives while that service really owes an answer
    xs = [j for j, e in enumerate(base["events"]) if e[0] == "X" and e[4] == "cur"]
    mode = draw(st.integers(0, 11))
    if xs and mode < 5:
        j = draw(st.sampled_from(xs))
        stray["id"] = base["events"][j][1]
        stray["svc_name"] = base["events"][j][2]
        stray["pos"] = j
    elif xs and mode < 9:
        # "echo": the same service answers the same client once more right after (or a few events after)
        # its final reply (OK / AGAIN / MORE ...), i.e. when it no longer owes this instance anything
        j = draw(st.sampled_from(xs))
        stray["id"] = base["events"][j][1]
        stray["svc_name"] = base["events"][j][2]
        stray["kind"] = "not_awaited"
        stray["pos"] = min(len(base["events"]), j + 1 + draw(st.sampled_from([0, 0, 0, 1, 2])))
    # a departed client's successor may connect from the very same address and port
    if draw(st.integers(0, 3)) == 0:
        first = {}
        for e in base["events"]:
            if e[0] == "C" and e[1] != 99:
                if e[1] in first:
                    e[2], e[3] = first[e[1]]
                else:
                    first[e[1]] = (e[2], e[3])
    if draw(st.integers(0, 11)) == 0 and base["conf"]["services"] and not any(e[0] in ("reload", "gap") for e in base["events"]):
        # the service the stray line claims to come from has just been dropped by a reload (it may still owe answers)
        svcs = [list(x) for x in base["conf"]["services"]]
        name = stray.get("svc_name") or svcs[stray["svc_i"] % len(svcs)][0]
        p = max(1, min(stray["pos"], len(base["events"])) - draw(st.sampled_from([0, 0, 1, 3])))
        base["events"].insert(p, ["reload", [x for x in svcs if x[0] != name]])
        stray["svc_name"] = name
        stray["pos"] = min(stray["pos"], len(base["events"]) - 1) + 1
    base["stray"] = stray
    return base


def stray_line(stray, conf, spec):
    """Build the stray line from the model state at the insertion point; returns
    (line, is_really_stray)."""
    cid = stray["id"]
    c = spec.cur.get(cid)
    ser = c.serial if c is not None else 1
    svcs = [n for n, p in spec.conf.services.items()] or [s[0] for s in conf["services"]] or ["nobody.ex"]
    svc = stray.get("svc_name") or svcs[stray["svc_i"] % len(svcs)]
    kind = stray["kind"]
    tag = "%x_%x" % (cid & 0xffffffff, ser)
    obs = getattr(spec, "observed_tags", {})       # (id, model serial) -> tag text the daemon itself used in its queries
    if kind == "stale":
        tag = "%x_%x" % (cid & 0xffffffff, ser - 1 if ser > 1 else ser + 7)
        olds = [i for i in spec.all if i.id == cid and i.serial != ser and (cid, i.serial) in obs]
        if olds:
            tag = obs[(cid, olds[-1].serial)]    # the tag the departed instance's queries really carried
    elif kind == "stale_gap":
        old = ser - stray.get("gap", 16)
        tag = "%x_%x" % (cid & 0xffffffff, old if old >= 1 else (ser - 1 if ser > 1 else ser + 7))
    elif kind == "stale_any":
        olds = [i.serial for i in spec.all if i.id == cid and i.serial != ser] or [ser + 3]
        pick = olds[stray.get("pick", 0) % len(olds)]
        tag = obs.get((cid, pick), "%x_%x" % (cid & 0xffffffff, pick))
    elif kind == "stale_shape":
        h = "%x" % ser
        sh = stray.get("shape", "prefix")
        t = {"prefix": h[:max(1, len(h) - 1)] if len(h) > 1 else "%x" % (ser + 1), "times16": h + "0", "plus16": "%x" % (ser + 16),
             "lead0": "0" + h, "drop_last": h[:-1] or "0", "append0": h + "00", "upper": h.upper()}[sh]
        tag = "%x_%s" % (cid & 0xffffffff, t)
    elif kind == "future":
        tag = "%x_%x" % (cid & 0xffffffff, spec.serial + 1)
    elif kind == "badtag":
        tag = stray["badtag"] % {"id": cid & 0xffffffff, "ser": ser}
    elif kind == "unknown_svc":
        svc = "nobody.example"
    elif kind == "case_svc":
        svc = svc.swapcase()
    elif kind == "svc_near":
        # a different (unconfigured) name that agrees with the awaited one in its first 63 characters, or is a
        # prefix / an extension of it
        how = stray.get("shape", "prefix")
        if "?" in svc:
            svc = svc.replace("?", "a")            # a name the configured one would match as a pattern
        elif len(svc) > 63 and how in ("prefix", "times16", "plus16"):
            svc = svc[:63] + "-other-tail"
        elif how in ("lead0", "drop_last"):
            svc = svc[:-1]
        else:
            svc = svc + "x"
    if " " in tag:
        # extra field: the tag token ends at the space, the rest shifts the reply
        pass
    if stray["unlinked"]:
        line = "-1 x %s %s :Server not online" % (svc, tag)
    else:
        line = "-1 X %s %s :%s" % (svc, tag, stray["reply"])
    if stray.get("crtail") and c is not None:
        # only LF (or CR LF) ends a line: what follows a bare CR is still text of this (stray) line
        owed = sorted(c.owing) or [svc]
        line += "\r-1 X %s %x_%x :NO open proxy" % (owed[0], cid & 0xffffffff, ser)
    # is it really stray?  (the model's reading of the routing rule)
    _, argv = proto.parse_line(line)
    really = True
    if kind in ("stale", "stale_any") and c is not None and c.live and obs.get((cid, ser)) == tag and tag != "%x_%x" % (cid & 0xffffffff, ser):
        # the daemon gave the departed and the current instance the same tag text (only possible when the
        # tag scheme is not the documented id_serial counter): a reply meant for the departed one is still stray
        really = True
    elif len(argv) >= 4:
        t = proto.parse_tag(argv[2])
        if t is not None:
            inst = spec.live(t[0])
            if inst is not None and inst.serial == t[1] and argv[1] in inst.owing:
                really = False
    return line, really


def run_plain(conf, events, workdir, insert=None):
    """Lock-step run; insert = (pos, fn(spec)->line or None).  Returns list of
    (line, out, in_use), spec, info."""
    d = dm.Daemon(ep.conf_text(conf), workdir)
    info = {"died": False, "hang": False, "stray_out": None, "really": None, "line": None, "live_at": False, "later": 0}
    steps = []
    try:
        try:
            banner = [b.decode("latin-1") for b in d.start()]
        except dm.DaemonDied:
            info["died"] = True
            d.finish()
            return steps, None, info
        spec = proto.Spec(proto.Conf(conf), ep.policies_of(banner))
        try:
            for i, ev in enumerate(events + [None]):
                if insert is not None and insert[0] == i:
                    line, really = insert[1](spec)
                    info["line"], info["really"] = line, really
                    c = spec.live(insert[2])
                    info["live_at"] = c is not None
                    if really:
                        out, in_use, _ = d.step(line)
                        info["stray_out"] = [b.decode("latin-1") for b in out]
                        if len(insert) > 3 and insert[3]:
                            out, in_use, _ = d.step(line)
                            info["stray_out"] += [b.decode("latin-1") for b in out]
                    else:
                        return steps, spec, info
                if ev is None:
                    break
                if ev[0] == "gap":
                    # ev[1] announcements of a filler id in one write (no barrier in between), then its withdrawal
                    d.send_raw(b"".join(b"99 C 127.0.0.1 %d 127.0.0.1 6667\n" % (1000 + k_ % 50000) for k_ in range(ev[1])) + b"99 D\n")
                    out, in_use, _ = d.barrier()
                    spec.serial += ev[1]
                    steps.append(("(gap %d)" % ev[1], [b.decode("latin-1") for b in out], in_use))
                    continue
                if ev[0] == "reload":
                    newconf = dict(conf, services=ev[1])
                    out, in_use, _ = d.reload(ep.conf_text(newconf))
                    spec.conf = proto.Conf(newconf)
                    steps.append(("(reload)", [b.decode("latin-1") for b in out], in_use))
                    continue
                line = ep.concretize(ev, spec)
                spec.feed_input(i, line)
                out, in_use, _ = d.step(line)
                out = [b.decode("latin-1") for b in out]
                spec.feed_output(i, out)
                if not hasattr(spec, "observed_tags"):
                    spec.observed_tags = {}
                for ln in out:
                    mm = proto.X_RE.match(ln)
                    if mm:
                        idpart = proto.c_strtol(mm.group(2), 16)[0]
                        cc = spec.live(((idpart + 2 ** 31) % 2 ** 32) - 2 ** 31)
                        if cc is not None:
                            spec.observed_tags[(cc.id, cc.serial)] = mm.group(2)
                steps.append((line, out, in_use))
                if insert is not None and i >= insert[0] and len(ev) > 1 and ev[1] == insert[2] and ev[0] not in ("X", "x"):
                    info["later"] += 1
        except dm.DaemonDied:
            info["died"] = True
        except dm.DaemonHang:
            info["died"] = True
            info["hang"] = True
            d.kill()
        if not info["hang"]:
            d.finish()
    finally:
        if d.p.poll() is None:
            d.kill()
    return steps, spec, info


def eval_c04(case, ctx):
    res = CaseResult()
    wd = os.path.join(ctx["root"], "c")
    shutil.rmtree(wd, ignore_errors=True)
    stray = case["stray"]
    base, spec0, info0 = run_plain(case["conf"], case["events"], wd)
    if info0["died"] or spec0 is None:
        res.inconclusive = "sut_hang" if info0["hang"] else "sut_died"
        return res
    shutil.rmtree(wd, ignore_errors=True)
    pos = min(stray["pos"], len(case["events"]))
    mod, spec1, info = run_plain(case["conf"], case["events"], wd,
                                 insert=(pos, lambda sp: stray_line(stray, case["conf"], sp), stray["id"], stray.get("twice", False)))
    if info["died"]:
        res.inconclusive = "sut_hang" if info["hang"] else "sut_died"
        return res
    if not info["really"]:
        res.classes.add("not_stray_reclassified")
        return res
    res.classes.add("stray_" + stray["kind"])
    if info["stray_out"]:
        res.violations.append(V("C04", "stray_output", "stray line %r produced output %r" % (info["line"], info["stray_out"]), pos))
    for i, (a, b) in enumerate(zip(base, mod)):
        if a[1] != b[1] or a[2] != b[2]:
            res.violations.append(V("C04", "stray_changes_later", "after stray line %r at position %d, step %d (%r) answers %r (in use %s) instead of %r (in use %s)"
                                    % (info["line"], pos, i, a[0], b[1], b[2], a[1], a[2]), i))
            break
    if info["live_at"] and info["later"] >= 1:
        res.nontrivial = True
    if info["live_at"]:
        res.classes.add("stray_for_live_id")
    return res


# ===========================================================================
# C07: solo vs interleaved

@st.composite
def c07_s(draw, pid, tier, opts=None):
    conf = draw(ep.conf_s("C07", tier))
    k = draw(st.integers(2, 5 if tier == "thorough" else 4))
    prof = ep.PROFILES.get("C07", ep.PROFILES["default"])
    kinds = ep.expand(prof)          # includes re-announcement of the client's own id
    rk = ep.REPLY_KINDS["default"]
    scripts = []
    if draw(st.integers(0, 6)) == 0:
        ids = draw(st.lists(st.sampled_from(ep.EXTREME_IDS), min_size=k, max_size=k, unique=True))
    else:
        ids = draw(st.lists(st.integers(1, 60), min_size=k, max_size=k, unique=True))
    for cid in ids:
        sc = [["C", cid, draw(st.sampled_from(ep.IPS)), draw(st.integers(1, 65535))]]
        for _ in range(draw(st.integers(0, 10))):
            sc.append(draw(ep.event_s(cid, conf, kinds, rk, (7, 2))))
        if draw(st.integers(0, 3)) > 0:
            sc.extend(ep.completion(draw, cid, conf, sc, rk, (7, 2)))
        scripts.append(sc)
    if conf["services"] and "iauth_xquery" in conf["modules"] and draw(st.integers(0, 5)) == 0:
        # all clients do the same thing at the same time: full data, a +x login, then one OK <account> per service,
        # the replies of the clients arriving in round-robin order
        scripts = []
        for cid in ids:
            sc = [["C", cid, draw(st.sampled_from(ep.IPS)), 1000 + cid % 1000], ["P", cid, "+x acct%d pw" % (cid % 1000)], ["N", cid, "h.example.org"],
                  ["u", cid, "id"], ["n", cid, "N%d" % (cid % 1000)], ["U", cid, "user", "real"]]
            for s_ in conf["services"]:
                sc.append(["X", cid, s_[0], "OK acct%d:7" % (cid % 1000), "cur"])
            scripts.append(sc)
        L = len(scripts[0])
        order = [i for step in range(L) for i in range(k)]
        return {"conf": conf, "scripts": scripts, "order": order, "pad": 0}
    total = sum(len(s) for s in scripts)
    order = draw(st.lists(st.integers(0, k - 1), min_size=total // 2, max_size=total))
    return {"conf": conf, "scripts": scripts, "order": order, "pad": draw(st.sampled_from([0, 0, 60, 100, 130, 200]))}


def merge(scripts, order):
    pos = [0] * len(scripts)
    ev = []
    for i in order:
        if pos[i] < len(scripts[i]):
            ev.append(scripts[i][pos[i]])
            pos[i] += 1
    for i in range(len(scripts)):
        ev.extend(scripts[i][pos[i]:])
    return ev


TAG_RE = re.compile(r"^X (\S+) ([0-9a-f]+)_([0-9a-f]+) :")


def conversation(steps, cid):
    """Projection of the output onto lines naming cid / bearing its tag; serial masked."""
    out = []
    hexid = "%x" % (cid & 0xffffffff)
    for _, lines, _ in steps:
        for ln in lines:
            m = TAG_RE.match(ln)
            if m:
                if m.group(2) == hexid:
                    out.append("X %s %s_* :%s" % (m.group(1), hexid, ln[m.end():]))
                continue
            m = proto.CLI_RE.match(ln)
            if m and int(m.group(2)) == cid:
                out.append(ln)
    return out


def _batch_conversations(conf, events, wd, cids):
    """Write the whole event list in one piece, close the input, read everything: per-client conversations."""
    import eng_proto3 as ep3
    spec_b = proto.Spec(proto.Conf(conf), "ARUW")
    lines = []
    for i, ev in enumerate(events):
        ln = ep.concretize(ev, spec_b)
        spec_b.feed_input(i, ln)
        lines.append(ln)
    shutil.rmtree(wd, ignore_errors=True)
    rb = ep3.run_batch(ep.conf_text(conf), ("\n".join(lines) + "\n").encode("latin-1"), wd)
    if rb["rc"] != 0 or rb["hang"]:
        return None
    return [conversation([(None, rb["out"], None)], cid) for cid in cids]


def eval_c07_batch_only(case, ctx, res):
    """The daemon stopped answering the lock-step barrier even for a client on its own (so lock-step attribution is
    unusable here, and the hang itself is C08's business): compare solo and interleaved conversations without barriers."""
    wd = os.path.join(ctx["root"], "c")
    res.inconclusive = "sut_hang"
    cids = [sc[0][1] for sc in case["scripts"]]
    solo = []
    for sc in case["scripts"]:
        c = _batch_conversations(case["conf"], sc, wd, [sc[0][1]])
        if c is None:
            return res
        solo.append(c[0])
    inter = _batch_conversations(case["conf"], merge(case["scripts"], case["order"]), wd, cids)
    if inter is None:
        return res
    for i, cid in enumerate(cids):
        if inter[i] != solo[i]:
            res.violations.append(V("C07", "interference_batch", "client %d: conversation differs from solo when both streams are written in one piece "
                                    "(the daemon does not answer a lock-step barrier on this history)" % cid))
            break
    return res


def eval_c07(case, ctx):
    res = CaseResult()
    wd = os.path.join(ctx["root"], "c")
    scripts = case["scripts"]
    solo = []
    for sc in scripts:
        shutil.rmtree(wd, ignore_errors=True)
        steps, spec, info = run_plain(case["conf"], sc, wd)
        if info["died"] and info["hang"]:
            return eval_c07_batch_only(case, ctx, res)
        if info["died"]:
            res.inconclusive = "sut_died"
            return res
        solo.append(conversation(steps, sc[0][1]))
    shutil.rmtree(wd, ignore_errors=True)
    events = merge(scripts, case["order"])
    # track overlap for the non-trivial rule
    steps, spec, info = run_plain(case["conf"], events, wd)
    if info["died"] and not info["hang"]:
        res.inconclusive = "sut_died"
        return res
    if info["hang"]:
        # every client was served to the end when alone; with the others' traffic mixed in the daemon stopped
        # answering: whatever the clients did not get is a difference caused by other clients' traffic
        res.inconclusive = "sut_hang"
        res.classes.add("interleaved_run_stopped_answering")
    for i, sc in enumerate(scripts):
        cid = sc[0][1]
        inter = conversation(steps, cid)
        if inter != solo[i]:
            # find first difference
            j = 0
            while j < len(inter) and j < len(solo[i]) and inter[j] == solo[i][j]:
                j += 1
            res.violations.append(V("C07", "interference", "client %d: interleaved conversation differs from solo at line %d: %r vs solo %r"
                                    % (cid, j, inter[j] if j < len(inter) else None, solo[i][j] if j < len(solo[i]) else None)))
            break
    # the same interleaving written in one piece (the daemon then reads it in 4096-byte chunks):
    # still the same per-client conversations
    if not res.violations and not info["hang"]:
        import eng_proto3 as ep3
        spec_b = proto.Spec(proto.Conf(case["conf"]), "ARUW")
        lines = []
        for i, ev in enumerate(events):
            ln = ep.concretize(ev, spec_b)
            spec_b.feed_input(i, ln)
            lines.append(ln)
        pad = case.get("pad", 0)
        noise = ["-1 M padding.server.example.org %d" % i for i in range(pad)]
        data = ("\n".join(noise[:pad // 2] + lines[:len(lines) // 2] + noise[pad // 2:] + lines[len(lines) // 2:]) + "\n").encode("latin-1")
        shutil.rmtree(wd, ignore_errors=True)
        rb = ep3.run_batch(ep.conf_text(case["conf"]), data, wd)
        if rb["rc"] == 0 and not rb["hang"]:
            bsteps = [(None, rb["out"], None)]
            for i, sc in enumerate(scripts):
                cid = sc[0][1]
                if conversation(bsteps, cid) != solo[i]:
                    res.violations.append(V("C07", "interference_batch", "client %d: conversation differs from solo when the interleaved stream (%d bytes) is written in one piece" % (cid, len(data))))
                    break
            if len(data) > 4096:
                res.classes.add("batch_over_4096_bytes")
    # non-trivial: interleaving is not a concatenation and >=2 clients had queries
    ids = [e[1] for e in events if e[0] not in ("raw",)]
    switches = sum(1 for a, b in zip(ids, ids[1:]) if a != b)
    queried = sum(1 for c in spec.all if c.queried) if spec else 0
    if switches >= len(scripts) + 1 and queried >= 2:
        res.nontrivial = True
    res.classes.add("clients_%d" % len(scripts))
    if queried >= 2:
        res.classes.add("two_clients_queried")
    return res


# ===========================================================================
# C09: grammar of the server channel + addressing

def addr_text(groups):
    """Render 8 groups as text the server could send (never starting with ':')."""
    v = 0
    for g in groups:
        v = (v << 16) | g
    return ":".join("%x" % g for g in groups), v


@st.composite
def address_s(draw):
    k = draw(st.integers(0, 9))
    if k < 3:
        o = [draw(st.sampled_from([0, 1, 9, 10, 99, 100, 127, 128, 199, 200, 249, 250, 255])) for _ in range(4)]
        return "%d.%d.%d.%d" % tuple(o)
    groups = []
    for _ in range(8):
        cls = draw(st.sampled_from([0, 0, 0, 1, 2, 3, 4]))
        if cls == 0:
            groups.append(0)
        else:
            lo, hi = 16 ** (cls - 1), 16 ** cls - 1
            groups.append(draw(st.sampled_from([lo, hi])) if draw(st.booleans()) else draw(st.integers(lo, hi)))
    if k == 3:
        groups[:5] = [0, 0, 0, 0, 0]
        groups[5] = draw(st.sampled_from([0, 0xffff]))
    elif k == 4:
        # longest possible texts: every group with four hex digits (39 characters), or all but one
        groups = [draw(st.integers(0x1000, 0xffff)) for _ in range(8)]
        if draw(st.booleans()):
            groups[draw(st.integers(0, 7))] = draw(st.sampled_from([0, 1, 0xfff]))
    text = addr_text(groups)[0]
    if k == 5:
        # mixed notation with all six leading groups written out
        return ":".join("%x" % g for g in groups[:6]) + ":%d.%d.%d.%d" % (groups[6] >> 8, groups[6] & 255, groups[7] >> 8, groups[7] & 255)
    if k == 6:
        # the compressed or the zero-padded upper-case spelling of the same address (never starting with ':')
        import ipaddress
        comp = ipaddress.IPv6Address(addr_text(groups)[1]).compressed
        return ("0" + comp if comp.startswith(":") else comp) if draw(st.booleans()) else ":".join("%04X" % g for g in groups)
    return text


LOG_KEYS = ["*.*", "*.>=info", "*.>=debug", "core.*", "config.>=warning", "iauth.debug,info", "iauth_xquery.<=warning",
            "*.=error", "iauth.>command", "bogus.*", "*.bogus", "nodot", "iauth_class.<error"]


@st.composite
def logs_s(draw):
    n = draw(st.integers(0, 4))
    keys = draw(st.lists(st.sampled_from(LOG_KEYS), min_size=n, max_size=n, unique=True))
    out = []
    for k in keys:
        if draw(st.integers(0, 34)) == 0:
            # a destination that cannot be opened (missing directory / a directory): the daemon may refuse to run,
            # but log text must not end up on the server channel instead
            out.append([k, draw(st.sampled_from(["file:no-such-dir/x.log", "file:.", "file:/nonexistent/iauthd/y.log"]))])
        elif draw(st.integers(0, 11)) == 0:
            # file names that other programs read as "standard output / error" are ordinary file names here
            out.append([k, draw(st.sampled_from(["file:-", "file:-", "file:stdout", "file:&1", "file:-1"]))])
        elif draw(st.booleans()):
            out.append([k, "file:log%d.txt" % draw(st.integers(0, 2))])
        else:
            out.append([k, ["file:log%d.txt" % i for i in draw(st.lists(st.integers(0, 2), min_size=1, max_size=3, unique=True))]])
    return out


@st.composite
def c09_s(draw, pid, tier, opts=None):
    conf = draw(ep.conf_s("C09", tier))
    conf["logs"] = draw(logs_s())
    base = draw(ep.history_s("C09", tier, conf=conf, max_clients=3))
    events = base["events"]
    # rich addresses and ports for the announcements
    for e in events:
        if e[0] == "C":
            e[2] = draw(address_s())
            e[3] = draw(st.sampled_from([0, 1, 65535, 6667])) if draw(st.booleans()) else draw(st.integers(0, 65535))
    # an occasional reply text far longer than a protocol line (the sender's buffer is 1024 bytes)
    xs = [e for e in events if e[0] == "X" and " " in e[3] and e[4] == "cur"]
    if xs and draw(st.integers(0, 2)) == 0:
        e = draw(st.sampled_from(xs))
        e[3] = e[3].split(" ", 1)[0] + " " + draw(st.text(ep.TEXT, min_size=1, max_size=3)) * draw(st.sampled_from([300, 400, 700, 1200]))
    noisy = ["-1 ? bogus", "-1 ? config", "-1 N garbage", "-1 d", "-1 U a :b", "-1 H", "-1 T", "-1 D", "-1 P :x", "-1 n x", "-1 u x",
             "-1 E errtype :some error text", "-1 M irc.example.org 1024", "-1 M short", "-1 ?"]
    for _ in range(draw(st.integers(0, 5))):
        pos = draw(st.integers(0, len(events)))
        k = draw(st.integers(0, 9))
        if k < 6:
            events.insert(pos, ["raw", draw(st.sampled_from(noisy))])
        elif k < 8:
            events.insert(pos, ["reload", draw(st.sampled_from(["same", "broken", "broken2", "badlog", "same"]))])
        else:
            ids = [e[1] for e in events if e[0] == "C"]
            events.insert(pos, ["X", draw(st.sampled_from(ids)) if ids else 1, "alpha.ex", "WHAT is this", "cur"])
    return {"conf": conf, "events": events, "crlf": bool(base.get("crlf")) or draw(st.integers(0, 5)) == 0}


GRAMMAR = [
    re.compile(r"^V :\S.*$"), re.compile(r"^a$"), re.compile(r"^s$"),
    re.compile(r"^A [A-Za-z0-9_]+ :.*$"), re.compile(r"^S [A-Za-z0-9_]+ :.*$"),
    re.compile(r"^O [A-Za-z]+$"), re.compile(r"^> :.*$"), re.compile(r"^G \d+$"),
    re.compile(r"^X \S+ [0-9a-f]+_[0-9a-f]+ :.*$"),
]
ADDR = r"[0-9a-fA-F:.]+"
CLI_GRAMMAR = {
    "d": re.compile(r"^d -?\d+ " + ADDR + r" \d+$"),
    "D": re.compile(r"^D -?\d+ " + ADDR + r" \d+( \S+)?$"),
    "R": re.compile(r"^R -?\d+ " + ADDR + r" \d+ \S+( \S+)?$"),
    "k": re.compile(r"^k -?\d+ " + ADDR + r" \d+ :.*$"),
    "C": re.compile(r"^C -?\d+ " + ADDR + r" \d+ :.*$"),
    "M": re.compile(r"^M -?\d+ " + ADDR + r" \d+ :?[+-]\S*$"),
    "U": re.compile(r"^U -?\d+ " + ADDR + r" \d+ \S*$"),
    "u": re.compile(r"^u -?\d+ " + ADDR + r" \d+ \S*$"),
    "o": re.compile(r"^o -?\d+ " + ADDR + r" \d+ \S*$"),
    "N": re.compile(r"^N -?\d+ " + ADDR + r" \d+ \S+$"),
    "I": re.compile(r"^I -?\d+ " + ADDR + r" \d+ \S+$"),
}


def grammar_ok(ln):
    if "\r" in ln or "\0" in ln:
        return False
    for g in GRAMMAR:
        if g.match(ln):
            return True
    g = CLI_GRAMMAR.get(ln[:1])
    return bool(g and len(ln) > 1 and ln[1] == " " and g.match(ln))


BROKEN_CONF = ["core { modules ( iauth_xquery \n", "iauth_xquery { \"unterminated\n", "logs { \"*.*\" ( a b ) }\n"]


def eval_c09(case, ctx):
    res = CaseResult()
    wd = os.path.join(ctx["root"], "c")
    shutil.rmtree(wd, ignore_errors=True)
    conf = proto.Conf(case["conf"])
    text = ep.conf_text(case["conf"])
    d = dm.Daemon(text, wd)
    if case.get("crlf"):
        d.eol = b"\r\n"          # a server that ends its lines with CR LF: no CR may show up in what the daemon echoes
    all_lines = []
    multi_zero = False
    noisy = False
    try:
        try:
            banner = [b.decode("latin-1") for b in d.start()]
        except dm.DaemonDied:
            res.inconclusive = "daemon_did_not_start"
            d.finish()
            return res
        all_lines.extend(banner)
        spec = proto.Spec(conf, ep.policies_of(banner))
        try:
            for i, ev in enumerate(case["events"]):
                if ev[0] == "sleep":
                    time.sleep(ev[1])
                    out, in_use, stats = d.barrier()
                    all_lines.extend(b.decode("latin-1") for b in out + stats)
                    res.classes.add("requests_older_than_10s")
                    continue
                if ev[0] == "reload":
                    noisy = True
                    if ev[1] == "badlog":
                        newtext = ep.conf_text(dict(case["conf"], logs=[["*.*", "file:no-such-dir/z.log"]] + [list(x) for x in case["conf"].get("logs", [])[:1]]))
                    else:
                        newtext = text if ev[1] == "same" else BROKEN_CONF[0 if ev[1] == "broken" else 2]
                    out, in_use, stats = d.reload(newtext)
                    all_lines.extend(b.decode("latin-1") for b in out + stats)
                    continue
                line = ep.concretize(ev, spec)
                if ev[0] == "raw" or (ev[0] == "X" and ev[3].startswith("WHAT")):
                    noisy = True
                if ev[0] == "C":
                    v = proto.addr_value(ev[2])
                    if v is not None and ":" in ev[2]:
                        gs = [(v >> (16 * (7 - j))) & 0xffff for j in range(8)]
                        runs = 0
                        inrun = False
                        for g in gs:
                            if g == 0 and not inrun:
                                runs += 1
                                inrun = True
                            elif g != 0:
                                inrun = False
                        if runs >= 2:
                            multi_zero = True
                spec.feed_input(i, line)
                out, in_use, stats = d.step(line)
                out = [b.decode("latin-1") for b in out]
                spec.feed_output(i, out)
                all_lines.extend(out)
                all_lines.extend(b.decode("latin-1") for b in stats)
        except dm.DaemonDied:
            res.inconclusive = "sut_died"
        except dm.DaemonHang:
            res.inconclusive = "sut_hang"
            d.kill()
        rc, rest, err = d.finish() if res.inconclusive != "sut_hang" else (None, [], "")
        all_lines.extend(b.decode("latin-1") for b in rest)
    finally:
        if d.p.poll() is None:
            d.kill()
    res.violations = [v for v in spec.viol]
    for ln in all_lines:
        if not grammar_ok(ln):
            res.violations.append(V("C09", "bad_grammar", "server channel carried %r which is not a valid IAuth message" % ln[:200]))
            break
    if getattr(d, "unframed", 0) and not res.violations:
        res.violations.append(V("C09", "unterminated_line", "a message on the server channel was not ended by a line feed: the next message (the statistics report the driver asked for) started in the middle of a line"))
    res.classes = set(spec.classes)
    if multi_zero:
        res.classes.add("ipv6_two_zero_runs")
    if noisy:
        res.classes.add("log_producing_event")
    res.nontrivial = multi_zero or noisy
    return res


# ===========================================================================
# C11: rule tables

ACCTS = ["alice", "bob", "ircoper", "alice2", "Alice"]
ACCT_PATS = ["alice", "al*", "*", "?lice", "a*e", "bob", "*oper", "alice?", "b?b", "zed*", "ALICE"]
IDENTS = ["joe", "~joe", "oper", "~web", "j", "abcdefghij", "~bcdefghij"]          # the last two have the maximum length (USERLEN = 10)
IDENT_PATS = ["joe", "~*", "*", "j*", "?per", "~joe", "~w?b", "x*", "abcdefghij", "?????????j", "*hij", "~bcdefghij"]
HOST63 = "h" * 20 + "." + "o" * 20 + "." + "s" * 17 + ".net"                  # 63 characters: the longest host name there is
HOSTS = ["a.example.org", "b.example.org", "trusted.net", "x.y.z", "", HOST63]
HOST_PATS = ["*.example.org", "trusted.*", "*", "?.example.org", "a.example.org", "*.net", "nomatch.*", "",
             # patterns that would match an address text (a client without a host name has the empty host name)
             "*.*", "10.*", "*:*", "?*", HOST63, "*" + HOST63[-9:], "h*t"]
NETS4 = [(10, 0, 0, 0), (10, 1, 2, 3), (192, 168, 0, 77), (127, 0, 0, 1), (10, 1, 255, 255), (11, 0, 0, 0), (0, 0, 0, 0), (0, 0, 0, 0), (128, 0, 0, 0)]
NETS6 = [0x20010db8000000000000000000000001, 0x20010db8000100000000000000000002, 0xfe800000000000000000000000010002,
         0x20010db9000000000000000000000001, 0, 0xffff00000000, 0x2001abcdef0000000000000000000001, 0xfc00dead0000beef0000000000000001]


@st.composite
def mask_s(draw):
    """-> (text, net128, bits)"""
    if draw(st.booleans()):
        a = draw(st.sampled_from(NETS4))
        net = (0xffff << 32) | (a[0] << 24) | (a[1] << 16) | (a[2] << 8) | a[3]
        k = draw(st.integers(0, 3))
        if k == 0:
            n = draw(st.sampled_from([0, 1, 7, 8, 9, 15, 16, 17, 23, 24, 25, 31, 32]))
            return "%d.%d.%d.%d/%d" % (a + (n,)), net, 96 + n
        if k == 1:
            nd = draw(st.integers(1, 3))
            return ".".join(str(x) for x in a[:nd]) + ".*", net, 96 + 8 * nd
        if k == 2:
            return "%d.%d.%d.%d" % a, net, 128
        n = draw(st.sampled_from([8, 12, 16]))
        return "%d.%d/%d" % (a[0], a[1], n), net & ~0xffff, 96 + n
    net = draw(st.sampled_from(NETS6))
    gs = [(net >> (16 * (7 - j))) & 0xffff for j in range(8)]
    k = draw(st.integers(0, 2))
    if draw(st.integers(0, 3)) == 0:
        t, n_, b_ = draw(_mask6_s(net, gs, k))
        return t.upper(), n_, b_              # hex digits may be written in either case
    return draw(_mask6_s(net, gs, k))


@st.composite
def _mask6_s(draw, net, gs, k):
    if k == 0:
        n = draw(st.sampled_from([0, 1, 8, 15, 16, 17, 31, 32, 33, 47, 48, 64, 80, 96, 97, 104, 127, 128]))
        return ":".join("%x" % g for g in gs) + "/%d" % n, net, n
    if k == 1:
        ng = draw(st.integers(1, 4))
        return ":".join("%x" % g for g in gs[:ng]) + ":*", net, 16 * ng
    n = draw(st.sampled_from([16, 32, 48]))
    pre = gs[:n // 16]
    return ":".join("%x" % g for g in pre) + "::/%d" % n, net, n


def ip_text(v):
    if (v >> 32) == 0xffff:
        return "%d.%d.%d.%d" % ((v >> 24) & 255, (v >> 16) & 255, (v >> 8) & 255, v & 255)
    return ":".join("%x" % ((v >> (16 * (7 - j))) & 0xffff) for j in range(8))


@st.composite
def rule_s(draw, name, svcs):
    f = {}
    if draw(st.integers(0, 3)):
        crit = draw(st.lists(st.sampled_from(["account", "address", "username", "hostname", "xreply_ok"]), max_size=5, unique=True))
    else:
        crit = draw(st.sampled_from([[], ["account"], ["address"], ["username"], ["hostname"]]))
    if draw(st.integers(0, 4)) > 0:
        f["class"] = draw(st.sampled_from(["trusted", "clients", "opers", "c1", "c2", "Users", "x" * 62, "y" * 63, "z" * 64, "w" * 100]))
    for c in crit:
        if c == "account":
            f["account"] = draw(st.sampled_from(ACCT_PATS))
        elif c == "address":
            text, net, bits = draw(mask_s())
            f["address"] = text
            f["_mask"] = [net, bits]
        elif c == "username":
            f["username"] = draw(st.sampled_from(IDENT_PATS))
        elif c == "hostname":
            f["hostname"] = draw(st.sampled_from(HOST_PATS))
        elif c == "xreply_ok" and svcs:
            f["xreply_ok"] = draw(st.sampled_from(svcs))
            if draw(st.integers(0, 3)) == 0:
                f["xreply_ok"] = f["xreply_ok"].swapcase()      # the rule may spell the service in another letter case
    if draw(st.integers(0, 3)) == 0:
        f["trust_username"] = draw(st.sampled_from(["true", "false", "yes", "0", "on"]))
    return [name, f]


RULE_NAMES = ["r1", "R2", "r3", "Alpha", "beta", "GAMMA", "delta", "a", "B", "c", "zz", "Z1", "m5", "M6",
              # rule order is the byte order of the lower-cased names: '_' and '[' sort after digits and before / after letters accordingly
              "oper_eu", "operators", "OPER[1]", "a_b", "aZ", "a`c", "oper^x"]


@st.composite
def c11_successor_s(draw):
    """A service says OK about a pending client; a reload replaces it by another service (which takes over its place in
    the daemon's table) before the client is accepted; a rule asks for an OK of the newcomer, which has said nothing."""
    old = draw(st.sampled_from(["bot.ex", "Bot.ex", "a.ex", "zz.ex"]))
    new = draw(st.sampled_from(["new.ex", "bot.example", "B.ex", "zzz.ex", old]))
    otype = draw(st.sampled_from(["dronecheck", "combined"]))
    svcs = list(draw(st.permutations([["login.ex", "login"], [old, otype]])))
    rules = [[draw(st.sampled_from(["a_rule", "A1", "m"])), {"xreply_ok": draw(st.sampled_from([new, new.swapcase()])), "class": "viaNew"}],
             [draw(st.sampled_from(["z_rule", "zz", "n"])), {"class": "fallback"}]]
    if draw(st.booleans()):
        rules.append(["b_old", {"xreply_ok": old, "class": "viaOld"}])
    conf = {"modules": ["iauth_class", "iauth_xquery"], "services": svcs, "timeout": 0, "rules": rules, "logs": [["*.>=info", "file:iauthd.log"]]}
    cid = draw(st.sampled_from([20, 0, 7]))
    data = [["N", cid, "host.example.org"], ["u", cid, "ident"], ["n", cid, "Nick"], ["U", cid, "user", "real name"], ["P", cid, "+x alice pw"]]
    ev = [["C", cid, "10.1.2.3", 4000]] + list(draw(st.permutations(data)))
    ev.append(["X", cid, old, draw(st.sampled_from(["OK", "OK", "OK drone:1"])), "cur"])
    rest = [s_ for s_ in svcs if s_[0] != old]
    ntype = draw(st.sampled_from(["dronecheck", "combined", "login"]))
    how_ = draw(st.integers(0, 3))
    if how_ == 0:
        ev.append(["reconf", {"services": rest + [[new, ntype]]}])
    elif how_ == 1:
        ev += [["reconf", {"services": rest}], ["reconf", {"services": rest + [[new, ntype]]}]]
    else:
        # the place stays empty: the rules are evaluated over a table with a gap in it
        ev += [["reconf", {"services": rest}]]
        if draw(st.booleans()):
            ev += [["C", cid + 1, "10.1.2.4", 4001], ["N", cid + 1, "host.example.org"], ["u", cid + 1, "ident"], ["n", cid + 1, "Other"],
                   ["U", cid + 1, "user", "real name"], ["X", cid + 1, "login.ex", "OK", "cur"], ["H", cid + 1]]
    k = draw(st.integers(0, 2)) if how_ < 2 else 0
    if k == 1:
        # the newcomer is asked on the client's next data event and answers
        ev += [["n", cid, "Nick2"], ["X", cid, new, draw(st.sampled_from(["OK", "AGAIN later", "OK"])), "cur"]]
    elif k == 2:
        ev += [["n", cid, "Nick2"], ["x", cid, new, "cur"]]
    ev.append(["X", cid, "login.ex", draw(st.sampled_from(["OK alice:1", "OK", "OK alice"])), "cur"])
    ev += [["X", cid, new, "OK", "cur"], ["H", cid]]
    return {"conf": conf, "events": ev}


@st.composite
def c11_s(draw, pid, tier, opts=None):
    if draw(st.integers(0, 11)) == 0:
        return draw(c11_successor_s())
    svcs = [["login.ex", draw(st.sampled_from(["login", "login", "login-ipr"]))], ["bot.ex", "dronecheck"]]
    if draw(st.booleans()):
        svcs.append(["comb.ex", "combined"])
    svcs = list(draw(st.permutations(svcs)))      # table slot order is independent of the names
    timeout = draw(st.sampled_from([0, 0, 5]))
    n = draw(st.integers(1, 8)) if draw(st.integers(0, 4)) else 0
    names = draw(st.lists(st.sampled_from(RULE_NAMES), min_size=n, max_size=n, unique_by=lambda s: s.lower()))
    rules = [draw(rule_s(nm, [s[0] for s in svcs])) for nm in names]
    if draw(st.integers(0, 3)) == 0:
        rules.insert(draw(st.integers(0, len(rules))), ["dummy", None, "bogus line"])
    conf = {"modules": ["iauth_class", "iauth_xquery"], "services": svcs, "timeout": timeout, "rules": rules,
            "logs": [["*.>=info", "file:iauthd.log"]]}
    events = []
    nclients = draw(st.integers(1, 4))
    masks = [r[1]["_mask"] for r in rules if r[1] and "_mask" in r[1]]
    for ci in range(nclients):
        cid = 20 + ci
        # address: inside one of the rule masks, just outside it, or unrelated
        k = draw(st.integers(0, 3))
        if masks and k < 3:
            net, bits = draw(st.sampled_from(masks))
            v = net
            if bits < 128:
                free = 128 - bits
                low = draw(st.integers(0, (1 << min(32, free)) - 1))
                if free > 32 and draw(st.booleans()):
                    low = draw(st.integers(0, (1 << free) - 1))      # anywhere inside the network, not just next to its base address
                v = (net >> free << free) | low
                if free > 32 and (net >> 32) == 0 and draw(st.booleans()):
                    v |= 0xffff << 32          # an IPv4 client inside a very wide (e.g. ::/8, ::/80) network
            if k == 2 and bits > 0:
                v ^= 1 << (128 - bits)          # flip the last prefix bit: just outside
            if (v >> 32) != 0xffff and (v >> 32) == 0:
                v = NETS6[0]
            ip = ip_text(v)
        else:
            ip = draw(st.sampled_from(["10.1.2.3", "127.0.0.1", "2001:db8:0:0:0:0:0:1", "192.168.0.77", "11.0.0.1"]))
        sc = [["C", cid, ip, draw(st.integers(1, 65535))]]
        host = draw(st.sampled_from(HOSTS))
        ident = draw(st.sampled_from(IDENTS))
        user = draw(st.sampled_from(["claimed", "~claimed", "joe-oper", "x"]))
        data = [["N", cid, host] if host else ["d", cid], ["u", cid, ident], ["n", cid, "Nick%d" % ci], ["U", cid, user, "real name"]]
        acct = draw(st.sampled_from(ACCTS + [None, None]))
        if acct is not None:
            data.append(["P", cid, "+x %s pw" % acct])
        sc.extend(draw(st.permutations(data)))
        replies = []
        if acct is not None:
            suffix = draw(st.sampled_from(["", ":1", ":12345:6"]))
            replies.append(["X", cid, "login.ex", draw(st.sampled_from(["OK %s%s" % (acct, suffix), "OK %s%s" % (acct, suffix), "OK", "AGAIN no"])), "cur"])
        # a drone-check service may say OK with a token (ignored as an account, but still an OK), may be
        # unlinked, or may stay silent until the request timeout expires (then nothing it "said" counts)
        bot = draw(st.sampled_from(["OK", "OK", "OK drone:1", "OK x", "AGAIN hm", "unlinked"] + (["silent", "silent"] if timeout else [])))
        silent = False
        if bot == "silent":
            silent = True
        elif bot == "unlinked":
            replies.append(["x", cid, "bot.ex", "cur"])
        else:
            replies.append(["X", cid, "bot.ex", bot, "cur"])
        if len(svcs) > 2:
            cb = draw(st.sampled_from(["OK", "OK", "OK other:9", "AGAIN later"] + (["silent"] if timeout else [])))
            if cb == "silent":
                silent = True
            else:
                replies.append(["X", cid, "comb.ex", cb, "cur"])
        sc.extend(draw(st.permutations(replies)))
        if acct is not None and draw(st.integers(0, 3)) == 0:
            # a second login round (e.g. after another service said AGAIN): services that already said OK are asked
            # again and may stay silent until the request times out - what they said before still counts
            sc.append(["P", cid, "+x %s pw2" % acct])
            again = [r for r in replies if r[0] == "X" and draw(st.booleans())]
            sc.extend([list(r) for r in again])
            if timeout and len(again) < len(replies):
                silent = True
        if silent:
            sc.append(["!", cid])
        events.append(sc)
    order = draw(st.lists(st.integers(0, nclients - 1), max_size=12))
    return {"conf": conf, "events": merge(events, order)}


# ===========================================================================
# dispatch

def strategy(pid, tier, opts):
    return {"C04": c04_s, "C07": c07_s, "C09": c09_s, "C11": c11_s}[pid](pid, tier, opts)


def evaluate(case, ctx):
    ctx["n"] += 1
    pid = ctx["pid"]
    if pid == "C04":
        return eval_c04(case, ctx)
    if pid == "C07":
        return eval_c07(case, ctx)
    if pid == "C09":
        return eval_c09(case, ctx)
    if pid == "C11":
        r = ep.evaluate(case, ctx)
        r.nontrivial = "nt_C11" in r.classes
        return r
    raise AssertionError(pid)


# ---------------------------------------------------------------------------
# C11 enumerated part: all 2^5 criteria subsets for a single rule (+ fallback rule),
# one client satisfying everything and one client failing exactly each criterion

import itertools as _it
import multiprocessing as _mp2

CRIT = {"account": "al*", "address": "10.1.0.0/16", "username": "jo?", "hostname": "*.example.org", "xreply_ok": "bot.ex"}
MASK_10_1 = [(0xffff << 32) | (10 << 24) | (1 << 16), 96 + 16]
GOOD = {"account": "alice", "address": "10.1.2.3", "username": "joe", "hostname": "a.example.org", "xreply_ok": "OK"}
BAD = {"account": "bob", "address": "10.2.0.1", "username": "jim", "hostname": "a.example.net", "xreply_ok": "AGAIN no"}


def c11_enum_cases():
    crits = sorted(CRIT)
    for r in range(0, 6):
        for sub in _it.combinations(crits, r):
            for trust in (False, True):
                f = {"class": "hit"}
                for c in sub:
                    f[c] = CRIT[c]
                    if c == "address":
                        f["_mask"] = MASK_10_1
                if trust:
                    f["trust_username"] = "true"
                conf = {"modules": ["iauth_class", "iauth_xquery"], "services": [["login.ex", "login"], ["bot.ex", "dronecheck"]], "timeout": 0,
                        "rules": [["r5", f], ["z9", {"class": "fallback"}]], "logs": [["*.>=info", "file:iauthd.log"]]}
                for fail in (None,) + tuple(sub) + (("oktoken",) if "xreply_ok" in sub else ()):
                    v = dict(GOOD)
                    if fail == "oktoken":
                        v["xreply_ok"] = "OK drone:5"     # an OK carrying a token is still an OK from that service
                        fail = None
                    elif fail:
                        v[fail] = BAD[fail]
                    ident = ("~" + v["username"]) if trust and fail != "username" and "username" not in sub else v["username"]
                    cid = 31
                    ev = [["C", cid, v["address"], 5000], ["N", cid, v["hostname"]], ["u", cid, ident], ["n", cid, "Nick"],
                          ["U", cid, "claimed", "real name"], ["P", cid, "+x %s pw" % v["account"]],
                          ["X", cid, "login.ex", "OK %s:77" % v["account"], "cur"], ["X", cid, "bot.ex", v["xreply_ok"], "cur"]]
                    yield {"conf": conf, "events": ev}


def _c11_worker(args):
    widx, nw = args
    ctx = ep.make_context("C11", "quick", 200 + widx, {})
    n = nt = 0
    fails = []
    samples = []
    try:
        for i, case in enumerate(c11_enum_cases()):
            if i % nw != widx:
                continue
            r = ep.evaluate(case, ctx)
            n += 1
            nt += 1
            if i % 61 == 0 and not samples:
                samples.append(case)
            for v in r.violations:
                if v.pid == "C11" and len(fails) < 3:
                    fails.append({"case": case, "sig": v.sig, "msg": v.msg})
                    break
    finally:
        ep.close_context(ctx)
    return n, nt, fails, samples


# ---------------------------------------------------------------------------
# C09 enumerated part: requests that stay pending for more than ten seconds of real time (the statistics report
# then lists them), 16 fixed scenarios run in parallel

AGED_ADDRS = ["10.1.2.3", "2001:db8:0:0:0:0:0:1", "0:0:1:0:1:0:0:0", "ffff:ffff:ffff:ffff:ffff:ffff:ffff:ffff", "0::ffff:9.8.7.6", "1:0:0:2:0:0:0:3",
              "255.255.255.255", "0:0:0:0:0:0:0:1"]


def c09_aged_cases():
    for i in range(16):
        conf = {"modules": ["iauth_class", "iauth_xquery"], "services": [["alpha.ex", "dronecheck"], ["Beta.ex", "login"]], "timeout": 30 if i % 2 else 0,
                "rules": [["r1", {"class": "c1"}]], "logs": [["*.>=info", "file:iauthd.log"]] if i % 4 else []}
        ev = []
        for k in range(1 + i % 4):
            cid = [3, 700, 2000000000, 0][k]
            ev.append(["C", cid, AGED_ADDRS[(i + k) % len(AGED_ADDRS)], [1, 65535, 6667, 0][(i + k) % 4]])
            if (i + k) % 3 >= 1:
                ev += [["N", cid, "host.example.org"], ["u", cid, "ident"], ["n", cid, "Nick%d" % k], ["U", cid, "user", "real name"]]
            if (i + k) % 3 == 2:
                ev.append(["P", cid, "+x! acct%d pw" % k])
        ev.append(["sleep", 10.4])
        ev += [["raw", "-1 ? stats"], ["raw", "-1 ? config"], ["raw", "-1 ? bogus"]]
        for k in range(1 + i % 4):
            cid = [3, 700, 2000000000, 0][k]
            ev += [["X", cid, "alpha.ex", "OK", "cur"], ["X", cid, "Beta.ex", "OK acct%d:1" % k, "cur"], ["H", cid]]
        ev.append(["raw", "-1 ? stats"])
        yield {"conf": conf, "events": ev}


def _c09_worker(args):
    widx, nw = args
    ctx = ep.make_context("C09", "quick", 300 + widx, {})
    n = 0
    fails, samples = [], []
    try:
        for i, case in enumerate(c09_aged_cases()):
            if i % nw != widx:
                continue
            r = eval_c09(case, ctx)
            n += 1
            if i == 5:
                samples.append(case)
            for v in r.violations:
                if v.pid == "C09" and len(fails) < 2:
                    fails.append({"case": case, "sig": v.sig, "msg": v.msg})
                    break
    finally:
        ep.close_context(ctx)
    return n, n, fails, samples


def extra_phase(pid, tier, seed):
    if pid == "C09":
        nw = vc.NCPU
        with _mp2.get_context("fork").Pool(nw) as pool:
            rs = pool.map(_c09_worker, [(w, nw) for w in range(nw)])
        out = {"evaluations": 0, "nontrivial": 0, "fails": [], "classes": {}, "samples": [], "exhaustive_scope": None}
        for n, nt, fails, samples in rs:
            out["evaluations"] += n
            out["nontrivial"] += nt
            out["fails"].extend(fails)
            out["samples"].extend(samples)
        out["classes"]["requests_pending_over_10s_real_time"] = out["evaluations"]
        return out
    if pid != "C11":
        return None
    nw = vc.NCPU
    with _mp2.get_context("fork").Pool(nw) as pool:
        rs = pool.map(_c11_worker, [(w, nw) for w in range(nw)])
    out = {"evaluations": 0, "nontrivial": 0, "fails": [], "classes": {}, "samples": [],
           "exhaustive_scope": "all 32 criteria subsets of a single rule (with and without trust_username) followed by a catch-all rule; "
                               "per subset one client satisfying everything and one client failing exactly each criterion"}
    for n, nt, fails, samples in rs:
        out["evaluations"] += n
        out["nontrivial"] += nt
        out["fails"].extend(fails)
        out["samples"].extend(samples)
    out["classes"]["enumerated_cases"] = out["evaluations"]
    return out
