"""Engine E-log (C18): Hypothesis-generated logs sections and reload sequences
driven through harness/logh.c (real log.c + config.c); oracle = routing model,
destination files read back."""
import os
import re
import shutil
import subprocess

from hypothesis import strategies as st

import daemon as dm
import proto
import vcommon as vc
from hyprun import CaseResult

SEVS = ["debug", "command", "info", "warning", "error", "fatal"]
LONGFAC = "a_very_long_facility_name_for_trusted_gateway_hosts"
# names on both sides of the section's own registered option "verbose_timestamp" in configuration order
FACS = ["core", "config", "f1", "f2", "nofac", "worker", "zeta", LONGFAC]
FILES = ["a.log", "b.log", "c.log", "d.log"]
LINE_RE = re.compile(r"^\[\d\d:\d\d:\d\d \d\d/\d\d/\d{4}\] \(([^:()]+):([a-z]+)\) (.*)$")


def V(sig, msg):
    return proto.Violation("C18", None, sig, msg)


def build():
    hsrc = vc.harness_path("logh.c")

    def b(out):
        srcs = [os.path.join(vc.REPO, "src", x) for x in ("log.c", "config.c", "set.c", "common.c", "bitset.c")]
        vc._run(["gcc"] + vc.SAN + vc.DEFS + vc.inc_flags() + ["-w", hsrc] + srcs + ["-levent", "-o", os.path.join(out, "logh")])
    return os.path.join(vc.cached_build("logh", vc.repo_sources() + [hsrc], (vc.SAN, vc.DEFS), b), "logh")


def setup():
    build()


# ---------------------------------------------------------------------------
# the routing model (from the documented syntax in doc/iauthd-c.conf.example and C18)

def parse_key(key):
    """-> (facility, set of severity indices) or None when the entry has unknown syntax."""
    if "." not in key:
        return None
    fac, sev = key.split(".", 1)
    if sev == "*":
        return fac, set(range(6))
    out = set()
    items = sev.split(",")
    if items and items[-1] == "":
        items.pop()              # a trailing comma (or an empty set) is tolerated
    for item in items:
        if item == "":
            return None          # empty item in the middle: unknown syntax
        op = "="
        for o in (">=", "<=", ">", "<", "="):
            if item.startswith(o):
                op = o
                item = item[len(o):]
                break
        name = item.lower()
        if name not in SEVS:
            return None
        i = SEVS.index(name)
        if op == "=":
            out.add(i)
        elif op == ">=":
            out |= set(range(i, 6))
        elif op == ">":
            out |= set(range(i + 1, 6))
        elif op == "<=":
            out |= set(range(0, i + 1))
        elif op == "<":
            out |= set(range(0, i))
    return fac, out


def routing(section):
    """section: list of [key, dests] -> dict (fac, sev) -> set(files); '*' facility fans out."""
    r = {}
    for key, dests in (section or []):
        pk = parse_key(key)
        if pk is None:
            continue
        fac, sevs = pk
        ds = [dests] if isinstance(dests, str) else list(dests)
        for s in sevs:
            for d in ds:
                r.setdefault((fac.lower(), s), set()).add(d)
    return r


def expected_files(r, fac, sev):
    return r.get((fac.lower(), sev), set()) | r.get(("*", sev), set())


# ---------------------------------------------------------------------------
# generators

@st.composite
def sevexpr_s(draw):
    k = draw(st.integers(0, 9))
    if k == 0:
        return "*"
    n = draw(st.sampled_from([1, 1, 1, 2, 3, 5, 6]))
    items = []
    for _ in range(n):
        op = draw(st.sampled_from(["", "", "=", ">=", ">", "<=", "<"]))
        name = draw(st.sampled_from(SEVS))
        name = draw(st.sampled_from([name, name, name.upper(), name.capitalize()]))
        items.append(op + name)
    if k == 1:
        items.insert(draw(st.integers(0, len(items))), draw(st.sampled_from(["bogus", ">=loud", "warn", "=", ">", "inf o", "=>error", "==info", ">>info", "<>warning", ">==error", "=<info", "<<fatal"])))
    return ",".join(items)


@st.composite
def section_s(draw):
    n = draw(st.integers(0, 5))
    out = []
    used = set()
    for _ in range(n):
        fac = draw(st.sampled_from(["core", "config", "f1", "f2", "*", "*", "nofac", "F1", "worker", "zeta", "Worker", LONGFAC, LONGFAC]))
        key = fac + "." + draw(sevexpr_s())
        if draw(st.integers(0, 14)) == 0:
            key = draw(st.sampled_from(["nodot", fac, fac + "info", "." + "info", "f1..info"]))
        if key.lower() in used:
            continue
        used.add(key.lower())
        if draw(st.booleans()):
            dests = "file:" + draw(st.sampled_from(FILES))
        else:
            dests = ["file:" + f for f in draw(st.lists(st.sampled_from(FILES), min_size=1, max_size=3, unique=True))]
        out.append([key, dests])
    return out


@st.composite
def c18_s(draw, pid, tier, opts=None):
    nl = draw(st.integers(1, 4))
    sections = [draw(section_s())]
    for _ in range(nl - 1):
        k = draw(st.integers(0, 9))
        prev = sections[-1]
        if k < 4 or not prev:
            sections.append(draw(section_s()))           # unrelated section
        elif k == 4:
            sections.append(prev)                        # identical reload
        else:
            # the previous section with small edits: destination list shortened / extended /
            # reordered, severity expression changed, entry dropped or added
            new = [[key, (list(d) if not isinstance(d, str) else d)] for key, d in prev]
            for _e in range(draw(st.integers(1, 2))):
                i = draw(st.integers(0, len(new) - 1))
                e = draw(st.sampled_from(["shorten", "shorten", "extend", "single", "resev", "drop", "add", "swap"]))
                key, d = new[i]
                dl = [d] if isinstance(d, str) else list(d)
                if e == "shorten" and len(dl) > 1:
                    new[i][1] = dl[:-1] if draw(st.booleans()) else dl[1:]
                elif e == "extend":
                    extra = [f for f in ["file:" + x for x in FILES] if f not in dl]
                    if extra:
                        new[i][1] = dl + [draw(st.sampled_from(extra))]
                elif e == "single":
                    new[i][1] = dl[0]
                elif e == "swap" and len(dl) > 1:
                    new[i][1] = dl[::-1]
                elif e == "resev":
                    new[i][0] = key.split(".", 1)[0] + "." + draw(sevexpr_s())
                elif e == "drop" and len(new) > 1:
                    new.pop(i)
                elif e == "add":
                    new.extend(draw(section_s())[:1])
            seen = set()
            dedup = []
            for key, d in new:
                if key.lower() not in seen:
                    seen.add(key.lower())
                    dedup.append([key, d])
            sections.append(dedup)
    # now and then the reloaded file has no logs block at all
    for i in range(1, len(sections)):
        if draw(st.integers(0, 11)) == 0:
            sections[i] = None
    pads = draw(st.lists(st.sampled_from([0, 0, 0, 1, 40, 500, 900, 960, 975, 980]), min_size=3, max_size=3))
    return {"sections": sections, "pads": pads}


def render_section(section):
    if section is None:
        return "core { };\n"        # a valid file without any logs block
    L = ["logs {"]
    for i, (key, dests) in enumerate(section):
        if i and i == len(section) // 2 and len(section) % 3 == 2:
            L += ["};", "core { };", "logs {"]        # the section may be written in several blocks: they add up
        if isinstance(dests, str):
            L.append("  %s %s;" % (dm.quote(key), dm.quote(dests)))
        else:
            L.append("  %s ( %s );" % (dm.quote(key), ", ".join(dm.quote(d) for d in dests)))
    L.append("};")
    if len(section) % 4 == 3:
        L.append("logs { };")                          # ... an empty block adds nothing and takes nothing away
    return "\n".join(L) + "\n"


# ---------------------------------------------------------------------------

def token(case, k, fac, s):
    """Unique message text; some are padded up to just below the logger's documented 1000-byte limit."""
    pads = case.get("pads") or [0]
    n = pads[(k * 7 + s + len(fac)) % len(pads)]
    n = max(0, min(n, 986 - len(fac)))       # the whole message stays below the logger's documented 1000 bytes
    pad = "x" * n
    if (k + s) % 3 == 1 and n >= 12:
        pad = "x%sx%nx97%x" + "x" * (n - 11)       # message text is data: a per cent sign means nothing to the logger
    return "T%d-%s-%d-%s-end" % (k, fac, s, pad)


def make_context(pid, tier, widx, opts):
    root = os.path.join(vc.BUILD, "tmp", "%d-%d" % (os.getpid(), widx))
    os.makedirs(root, exist_ok=True)
    return {"pid": pid, "root": root, "bin": build(), "n": 0}


def close_context(ctx):
    shutil.rmtree(ctx["root"], ignore_errors=True)


def strategy(pid, tier, opts):
    return c18_s(pid, tier, opts)


def evaluate(case, ctx):
    ctx["n"] += 1
    res = CaseResult()
    wd = os.path.join(ctx["root"], "c")
    shutil.rmtree(wd, ignore_errors=True)
    os.makedirs(wd)
    cmds = []
    for k, sec in enumerate(case["sections"]):
        with open(os.path.join(wd, "l%d.conf" % k), "w", encoding="latin-1") as fh:
            fh.write(render_section(sec))
        cmds.append("load l%d.conf" % k)
        for fac in FACS:
            for s in range(6):
                cmds.append("emit %s %d %s" % (fac, s, token(case, k, fac, s)))
    env = dict(os.environ)
    env["ASAN_OPTIONS"] = "detect_leaks=0:abort_on_error=0:exitcode=23"
    env["UBSAN_OPTIONS"] = "halt_on_error=0"
    try:
        p = subprocess.run([ctx["bin"]], input=("\n".join(cmds) + "\nquit\n").encode(), stdout=subprocess.PIPE, stderr=subprocess.PIPE,
                           cwd=wd, env=env, timeout=120)
    except subprocess.TimeoutExpired:
        res.inconclusive = "harness_timeout"
        return res
    err = p.stderr.decode("latin-1")
    out = p.stdout.decode("latin-1").splitlines()
    mem, _, _ = dm.classify_stderr(err)
    if mem or p.returncode != 0:
        res.violations.append(V("memory_error", "logger crashed / memory error during reload+emit sequence: %s" % (mem[:1] or [err[-200:], p.returncode])))
        return res
    li = [o for o in out if o.startswith("L ")]
    if any(o != "L 0" for o in li):
        res.inconclusive = "section_rejected"
        return res
    if any("fatal-exit" in o and not o.endswith("=1") for o in out):
        res.violations.append(V("fatal_did_not_terminate", "a fatal message did not terminate the (forked) process with status 1: %s" % [o for o in out if "fatal-exit" in o][:2]))
    # read the files back
    seen = {}     # token -> {file: [lines]}
    for f in FILES:
        path = os.path.join(wd, f)
        if not os.path.exists(path):
            continue
        with open(path, encoding="latin-1") as fh:
            for ln in fh.read().split("\n"):
                if ln == "":
                    continue
                m = LINE_RE.match(ln)
                if not m:
                    if re.search(r"T\d+-", ln):
                        res.violations.append(V("incomplete_line", "line in %s is not a complete '[time] (facility:severity) message' line: %r" % (f, ln[:160])))
                    continue
                msg = m.group(3)
                tm = re.match(r"^T(\d+)-([a-z0-9_]+)-(\d)-[x%sn97]*-end$", msg)
                if not tm:
                    continue
                seen.setdefault(msg, {}).setdefault("file:" + f, []).append((m.group(1), m.group(2)))
    rerouted = False
    prev = None
    for k, sec in enumerate(case["sections"]):
        r = routing(sec)
        if prev is not None and r != prev:
            rerouted = True
        prev = r
        for fac in FACS:
            for s in range(6):
                tok = token(case, k, fac, s)
                want = expected_files(r, fac, s)
                got = set(seen.get(tok, {}).keys())
                if got != want:
                    extra, missing = sorted(got - want), sorted(want - got)
                    sig = "written_to_wrong_destination" if extra else "message_lost"
                    res.violations.append(V(sig, "load %d, section %r: message (%s, %s) went to %s, expected %s" % (k, sec, fac, SEVS[s], sorted(got), sorted(want))))
                    break
                for f, attrs in seen.get(tok, {}).items():
                    for (af, asev) in attrs:
                        if af.lower() != fac.lower() or asev != SEVS[s]:   # facility names are case-insensitive
                            res.violations.append(V("misattributed_line", "token %s written as (%s:%s)" % (tok, af, asev)))
            else:
                continue
            break
    secs = [sec for sec in case["sections"] if sec]
    ops = any(any(o in key for o in "<>") for sec in secs for key, _ in sec)
    ndest = len({d for sec in secs for _, ds in sec for d in ([ds] if isinstance(ds, str) else ds)})
    res.nontrivial = ops and ndest >= 2 and rerouted
    if rerouted:
        res.classes.add("rerouted_by_reload")
    if ops:
        res.classes.add("range_operator")
    if any(parse_key(key) is None for sec in secs for key, _ in sec):
        res.classes.add("entry_with_unknown_syntax")
    if any(key.startswith("*.") for sec in secs for key, _ in sec):
        res.classes.add("star_facility")
    if any(sec is None for sec in case["sections"]):
        res.classes.add("reload_without_logs_block")
    if any(p >= 900 for p in case.get("pads") or []):
        res.classes.add("message_near_1000_bytes")
    return res
