"""Driver for the real (sanitized) iauthd-c daemon over its stdin/stdout/SIGUSR1
interface (engine E-proto).  See DESIGN.md section 4."""
import ctypes
import os
import select
import signal
import subprocess
import time

import vcommon as vc

BARRIER = b"-1 ? stats2\n"
START_TIMEOUT = 60.0
# A barrier is answered in well under a millisecond; a daemon that is alive but silent for this long has stopped
# reading its input ("hang").  Hangs never become verdicts without being reproduced three times (hyprun.confirm).
IO_TIMEOUT = float(os.environ.get("VERIF_HANG_S", "20"))

_libc = ctypes.CDLL(None, use_errno=True)
IN_CLOSE_NOWRITE = 0x10
IN_NONBLOCK = 0o4000
IN_CLOEXEC = 0o2000000
_IFD = None
_IFD_PID = None


class DaemonDied(Exception):
    def __init__(self, lines):
        Exception.__init__(self, "daemon closed its output")
        self.lines = lines


class DaemonHang(Exception):
    pass


def san_env(detect_leaks=True):
    env = dict(os.environ)
    env["ASAN_OPTIONS"] = "detect_leaks=%d:exitcode=23:abort_on_error=0:allocator_may_return_null=1:handle_abort=1" % (1 if detect_leaks else 0)
    env["UBSAN_OPTIONS"] = "print_stacktrace=0:halt_on_error=0"
    env["LSAN_OPTIONS"] = "exitcode=23:print_suppressions=0"
    env.pop("LD_PRELOAD", None)
    return env


def quote(s):
    """Render a string as a quoted config token (conservative layout)."""
    out = ['"']
    for ch in s.encode("latin-1") if isinstance(s, str) else s:
        if ch == 0x22:
            out.append('\\"')
        elif ch == 0x5c:
            out.append("\\\\")
        elif ch == 0x0a:
            out.append("\\n")
        elif ch == 0x0d:
            out.append("\\r")
        elif ch < 0x20 or ch >= 0x7f:
            out.append("\\x%02x" % ch)
        else:
            out.append(chr(ch))
    out.append('"')
    return "".join(out)


def render_conf(modules, moddir, timeout=None, services=(), rules=(), logs=(), extra="", omit=()):
    """services: [(name, protocol)], rules: [(name, {field: value})] or
    (name, None, rawvalue) for a non-object child, logs: [(key, [dest...])]."""
    L = []
    L.append("core {")
    L.append("  library_path ( %s );" % quote(moddir))
    L.append("  modules ( %s );" % ", ".join(modules))
    L.append("};")
    if timeout is not None:
        L.append("iauth { timeout %s; };" % quote(str(timeout)))
    else:
        L.append("iauth { };")
    if "iauth_xquery" not in omit:
        L.append("iauth_xquery {")
        for name, proto in services:
            L.append("  %s %s;" % (quote(name), quote(proto)))
        L.append("};")
    if "iauth_class" in omit:
        rules = ()
    else:
        L.append("iauth_class {")
    for r in rules:
        name, fields = r[0], r[1]
        if fields is None:
            L.append("  %s %s;" % (quote(name), quote(r[2])))
            continue
        L.append("  %s {" % quote(name))
        for k, v in fields.items():
            L.append("    %s %s;" % (k, quote(v)))
        L.append("  };")
    if "iauth_class" not in omit:
        L.append("};")
    L.append("logs {")
    for key, dests in logs:
        if isinstance(dests, str):
            L.append("  %s %s;" % (quote(key), quote(dests)))
        else:
            L.append("  %s ( %s );" % (quote(key), ", ".join(quote(d) for d in dests)))
    L.append("};")
    if extra:
        L.append(extra)
    return "\n".join(L) + "\n"


class Daemon:
    def __init__(self, conf_text, workdir, debug=False, detect_leaks=True, binary=None, how="rewrite"):
        """how: the way a new configuration is installed before SIGUSR1 - "rewrite" the file in place, "rename" a new
        file over it, or start from a "symlink" and re-point it at a new file."""
        self.workdir = workdir
        os.makedirs(workdir, exist_ok=True)
        self.conf_path = os.path.join(workdir, "iauthd.conf")
        self.how = how
        self.gen = 0
        if how == "symlink":
            with open(self.conf_path + ".0", "w", encoding="latin-1") as fh:
                fh.write(conf_text)
            if os.path.lexists(self.conf_path):
                os.unlink(self.conf_path)
            os.symlink("iauthd.conf.0", self.conf_path)
        else:
            with open(self.conf_path, "w", encoding="latin-1") as fh:
                fh.write(conf_text)
        self.errpath = os.path.join(workdir, "stderr.txt")
        self.binary = binary or os.path.join(vc.build_daemon(), "iauthd-c")
        args = [self.binary, "-n", "-f", self.conf_path]
        if debug:
            args.insert(1, "-d")
        self.errf = open(self.errpath, "wb")
        self.p = subprocess.Popen(args, stdin=subprocess.PIPE, stdout=subprocess.PIPE,
                                  stderr=self.errf, cwd=workdir, env=san_env(detect_leaks),
                                  bufsize=0)
        self.buf = b""
        self.eof = False
        self.prestart = []   # lines before the V banner
        self.banner = []     # V banner .. first barrier
        self.ifd = None
        self.died = False
        self.eol = b"\n"         # the server may also end its lines with CR LF

    # ---------------------------------------------------------------- io
    def _readline(self, timeout=IO_TIMEOUT):
        while True:
            i = self.buf.find(b"\n")
            if i >= 0:
                line, self.buf = self.buf[:i], self.buf[i + 1:]
                return line
            if self.eof:
                if self.buf:
                    line, self.buf = self.buf, b""
                    return line
                return None
            r, _, _ = select.select([self.p.stdout], [], [], timeout)
            if not r:
                raise DaemonHang()
            chunk = os.read(self.p.stdout.fileno(), 65536)
            if not chunk:
                self.eof = True
            else:
                self.buf += chunk

    def _write(self, data):
        try:
            self.p.stdin.write(data)
            self.p.stdin.flush()
        except (BrokenPipeError, OSError):
            self.died = True

    def start(self):
        """Wait for the V banner, then synchronise with one barrier."""
        while True:
            line = self._readline(timeout=START_TIMEOUT)
            if line is None:
                self.died = True
                raise DaemonDied(self.prestart)
            if line.startswith(b"V :"):
                self.banner.append(line)
                break
            self.prestart.append(line)
        out, in_use, stats = self.barrier()
        self.banner.extend(out)
        return self.banner

    def barrier(self):
        self._write(BARRIER[:-1] + self.eol)
        out, stats = [], []
        in_block = False
        while True:
            line = self._readline()
            if line is None:
                self.died = True
                raise DaemonDied(out + stats)
            if not in_block and line.startswith(b"S iauth :"):
                in_block = True
            if not in_block and line == b"s":
                # the end of a statistics report whose beginning was not seen at the start of a line: whatever the
                # daemon wrote before it was not terminated.  The lines are handed to the monitors as they came.
                self.unframed = getattr(self, "unframed", 0) + 1
                break
            if in_block:
                if line == b"s":
                    break
                stats.append(line)
            else:
                out.append(line)
        in_use = None
        for s in stats:
            if s.startswith(b"S iauth :") and b" in use" in s:
                try:
                    in_use = int(s.split(b", ")[1].split(b" ")[0])
                except (ValueError, IndexError):
                    in_use = None
                break
        return out, in_use, stats

    def step(self, line):
        """Write one input line, then a barrier; returns (out, in_use, stats)."""
        if isinstance(line, str):
            line = line.encode("latin-1")
        self._write(line + self.eol)
        return self.barrier()

    def drain(self, settle=0.05):
        """Whatever the daemon has already written, without sending it anything (complete lines only)."""
        lines = []
        while True:
            r, _, _ = select.select([self.p.stdout], [], [], settle)
            if not r:
                break
            chunk = os.read(self.p.stdout.fileno(), 65536)
            if not chunk:
                self.eof = True
                break
            self.buf += chunk
        while True:
            i = self.buf.find(b"\n")
            if i < 0:
                break
            lines.append(self.buf[:i])
            self.buf = self.buf[i + 1:]
        return lines

    def send_raw(self, data):
        self._write(data)

    def drained(self, timeout=IO_TIMEOUT):
        """Wait until the daemon has consumed everything written to its stdin."""
        import fcntl
        import struct
        import termios
        t0 = time.time()
        while time.time() - t0 < timeout:
            b = fcntl.ioctl(self.p.stdin.fileno(), termios.FIONREAD, struct.pack("i", 0))
            if struct.unpack("i", b)[0] == 0:
                return True
            if self.p.poll() is not None:
                return False
            time.sleep(0.0002)
        return False

    # ------------------------------------------------------------ reload
    def reload(self, new_conf_text, timeout=IO_TIMEOUT):
        """Rewrite the config file, SIGUSR1, wait for the daemon's close of the
        file (inotify), then a barrier: when it answers the reload is done."""
        global _IFD, _IFD_PID
        if _IFD is None or _IFD_PID != os.getpid():   # never share an instance across fork()
            _IFD_PID = os.getpid()
            _IFD = _libc.inotify_init1(IN_NONBLOCK | IN_CLOEXEC)   # one instance per worker process, reused
            if _IFD < 0:
                _IFD = None
                raise vc.MachineryError("inotify_init1 failed (errno %d)" % ctypes.get_errno())
        self.ifd = _IFD
        # drain stale events
        try:
            while True:
                os.read(self.ifd, 4096)
        except (BlockingIOError, OSError):
            pass
        self.gen += 1
        if self.how == "rewrite":
            with open(self.conf_path, "w", encoding="latin-1") as fh:
                fh.write(new_conf_text)
        else:
            newp = "%s.%d" % (self.conf_path, self.gen)
            with open(newp, "w", encoding="latin-1") as fh:
                fh.write(new_conf_text)
            if self.how == "rename":
                os.replace(newp, self.conf_path)                 # atomic replacement under the same name
            else:
                tmp = self.conf_path + ".lnk"
                if os.path.lexists(tmp):
                    os.unlink(tmp)
                os.symlink(os.path.basename(newp), tmp)
                os.replace(tmp, self.conf_path)                  # the name the daemon was given now points at the new file
        wd = _libc.inotify_add_watch(self.ifd, self.conf_path.encode(), IN_CLOSE_NOWRITE)
        if wd < 0:
            raise vc.MachineryError("inotify_add_watch failed")
        try:
            os.kill(self.p.pid, signal.SIGUSR1)
            r, _, _ = select.select([self.ifd], [], [], min(timeout, 3.0))
            if not r:
                if self.p.poll() is not None:
                    self.died = True
                    raise DaemonDied([])
                # nobody closed that file within three seconds: the daemon is busy, or it read something else (a path it
                # remembered from start-up, say).  The signal was delivered long ago; go on and let the oracle judge what
                # the daemon does next (a daemon that is really stuck shows at the barrier).
                self.reload_unobserved = getattr(self, "reload_unobserved", 0) + 1
            else:
                os.read(self.ifd, 4096)
        finally:
            _libc.inotify_rm_watch(self.ifd, wd)
        return self.barrier()

    # ------------------------------------------------------------ finish
    def finish(self, timeout=IO_TIMEOUT):
        """Close stdin; return (exit_status, remaining_stdout_lines, stderr_text).
        exit_status is negative for death by signal, None for a hang."""
        try:
            self.p.stdin.close()
        except OSError:
            pass
        rest = []
        t0 = time.time()
        try:
            while True:
                line = self._readline(timeout=max(0.1, timeout - (time.time() - t0)))
                if line is None:
                    break
                rest.append(line)
        except DaemonHang:
            self.p.kill()
            self.p.wait()
            self._close()
            return None, rest, self._stderr()
        try:
            rc = self.p.wait(timeout=max(0.1, timeout - (time.time() - t0)))
        except subprocess.TimeoutExpired:
            self.p.kill()
            self.p.wait()
            rc = None
        self._close()
        return rc, rest, self._stderr()

    def kill(self):
        try:
            self.p.kill()
            self.p.wait()
        except OSError:
            pass
        self._close()

    def _close(self):
        for f in (self.p.stdout, self.errf):
            try:
                f.close()
            except OSError:
                pass
        self.ifd = None

    def _stderr(self):
        try:
            with open(self.errpath, "rb") as fh:
                return fh.read().decode("latin-1")
        except OSError:
            return ""


def classify_stderr(text):
    """Split a sanitizer log into (memory_reports, arithmetic_reports, leak_reports)."""
    mem, arith, leak = [], [], []
    for ln in text.splitlines():
        if "runtime error:" in ln:
            low = ln.lower()
            if ("shift" in low or "signed integer overflow" in low or "unsigned integer overflow" in low
                    or "negation of" in low or "division by zero" in low or "is outside the range of representable" in low):
                arith.append(ln.strip())
            else:
                mem.append(ln.strip())
        elif "ERROR: AddressSanitizer" in ln or "ERROR: UndefinedBehaviorSanitizer" in ln:
            mem.append(ln.strip())
        elif "ERROR: LeakSanitizer" in ln or "SUMMARY: AddressSanitizer:" in ln and "leaked" in ln:
            leak.append(ln.strip())
        elif "buffer overflow detected" in ln or "stack smashing detected" in ln:
            mem.append(ln.strip())
    return mem, arith, leak
