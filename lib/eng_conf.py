"""Engine E-conf (C14, C15, C16): Hypothesis-generated configuration trees,
renderings, registration sets and load sequences driven through harness/confh.c
(src/config.c linked unmodified, logging stubbed)."""
import glob
import os
import shutil
import subprocess

from hypothesis import strategies as st

import proto
import vcommon as vc
from hyprun import CaseResult

KINDS = {"s": 0, "a": 1, "l": 2, "o": 3}
KNAME = {0: "s", 1: "a", 2: "l", 3: "o"}
TOKCH = "abcdefghijklmnopqrstuvwxyzABCDEFGHIJKLMNOPQRSTUVWXYZ0123456789-._#"


def V(pid, sig, msg):
    return proto.Violation(pid, None, sig, msg)


# ---------------------------------------------------------------------------
# build + run

def build():
    hsrc = vc.harness_path("confh.c")

    def b(out):
        srcs = [os.path.join(vc.REPO, "src", x) for x in ("config.c", "set.c", "common.c", "bitset.c")]
        vc._run(["gcc"] + vc.SAN + vc.DEFS + vc.inc_flags() + ["-w", hsrc] + srcs + ["-levent", "-o", os.path.join(out, "confh")])
    return os.path.join(vc.cached_build("confh", vc.repo_sources() + [hsrc], (vc.SAN, vc.DEFS), b), "confh")


def setup():
    build()
    build_conf_fuzz()
    build_conf_enum()


def hx(s):
    if s is None:
        return "-"
    if s == "":
        return "="
    return s.encode("latin-1").hex()


def unhx(t):
    if t == "-":
        return None
    if t == "=":
        return ""
    return bytes.fromhex(t).decode("latin-1")


class Result:
    def __init__(self):
        self.responses = []   # per command: list of lines
        self.rc = None
        self.stderr = ""
        self.crashed = False


def run_confh(binary, commands, timeout=60):
    env = dict(os.environ)
    env["ASAN_OPTIONS"] = "detect_leaks=0:abort_on_error=0:exitcode=23"
    env["UBSAN_OPTIONS"] = "print_stacktrace=0:halt_on_error=0"
    script = "\n".join(commands + ["quit"]) + "\n"
    try:
        p = subprocess.run([binary], input=script.encode("latin-1"), stdout=subprocess.PIPE, stderr=subprocess.PIPE, env=env, timeout=timeout)
    except subprocess.TimeoutExpired:
        r = Result()
        r.crashed = True
        r.stderr = "TIMEOUT (hang) after %ds" % timeout
        return r
    r = Result()
    r.rc = p.returncode
    r.stderr = p.stderr.decode("latin-1")
    lines = p.stdout.decode("latin-1").split("\n")
    i = 0
    for c in commands:
        w = c.split(" ", 1)[0]
        if w in ("dump", "hooks", "logs"):
            blk = []
            while i < len(lines) and lines[i] != "E":
                blk.append(lines[i])
                i += 1
            if i >= len(lines):
                r.crashed = True
                r.responses.append(blk)
                break
            i += 1
            r.responses.append(blk)
        else:
            if i >= len(lines) or lines[i] == "":
                r.crashed = True
                break
            r.responses.append([lines[i]])
            i += 1
    if p.returncode != 0:
        r.crashed = True
    return r


def mem_report(stderr):
    for ln in stderr.splitlines():
        if "ERROR: AddressSanitizer" in ln or "TIMEOUT" in ln:
            return ln.strip()[:200]
        if "runtime error:" in ln and not any(k in ln for k in ("shift", "overflow", "negation")):
            return ln.strip()[:200]
    return None


def lkey(name):
    return "".join(chr(ord(c) + 32) if "A" <= c <= "Z" else c for c in name)


def parse_dump(lines):
    """-> nested dict {(lname, kind): node}; node: name, kind, present, specified, value, parsed, children"""
    root = {}
    stack = [root]
    problems = []
    for ln in lines:
        if ln.startswith("X "):
            problems.append(ln)
            continue
        t = ln.split(" ")
        if t[0] != "N":
            problems.append("unparsable dump line %r" % ln)
            continue
        depth, kind, present, specified = int(t[1]), int(t[2]), int(t[3]), int(t[4])
        name = unhx(t[5])
        node = {"name": name, "kind": KNAME[kind], "present": present, "specified": specified}
        if kind == 0:
            node["subtype"] = int(t[6])
            node["value"] = unhx(t[7])
            node["parsed"] = t[8] if len(t) > 8 else None
        elif kind == 1:
            node["value"] = [unhx(t[6]), unhx(t[7])]
        elif kind == 2:
            n = int(t[6])
            node["value"] = [unhx(x) for x in t[7:7 + n]]
        else:
            node["children"] = {}
        del stack[depth + 1:]
        key = (lkey(name), KNAME[kind])
        if key in stack[depth]:
            problems.append("duplicate key %r in dump" % (key,))
        stack[depth][key] = node
        if kind == 3:
            stack.append(node["children"])
    return root, problems


# ---------------------------------------------------------------------------
# trees and their meaning

def tree_model(entries):
    """Entry list in file order -> merged dict {(lname, kind): node} (later duplicates
    override, repeated objects merge)."""
    out = {}
    for name, kind, val in entries:
        key = (lkey(name), kind)
        if kind == "o":
            node = out.get(key)
            if node is None:
                node = {"name": name, "kind": "o", "children": {}}
                out[key] = node
            sub = tree_model(val)
            merge_into(node["children"], sub)
        else:
            prev = out.get(key)
            out[key] = {"name": prev["name"] if prev else name, "kind": kind, "value": val}
    return out


def merge_into(dst, src):
    for k, n in src.items():
        if n["kind"] == "o" and k in dst:
            merge_into(dst[k]["children"], n["children"])
        elif k in dst and n["kind"] != "o":
            dst[k] = dict(n, name=dst[k]["name"])
        else:
            dst[k] = n


def cmp_tree(model, dump, path, diffs, only_present=True):
    for k, m in model.items():
        d = dump.get(k)
        here = path + "/" + m["name"]
        if d is None or (only_present and not d["present"]):
            diffs.append("%s (%s) missing from the parsed tree" % (here, k[1]))
            continue
        if m["kind"] == "o":
            cmp_tree(m["children"], d["children"], here, diffs, only_present)
        else:
            dv = d["value"]
            mv = list(m["value"]) if isinstance(m["value"], (list, tuple)) else m["value"]
            if dv != mv:
                diffs.append("%s (%s) reads back as %r, written %r" % (here, k[1], dv, mv))
    for k, d in dump.items():
        if k not in model and (d["present"] or not only_present):
            diffs.append("%s/%s (%s) appeared although the file does not contain it" % (path, d["name"], k[1]))


# ---------------------------------------------------------------------------
# generators: names, strings, trees

NAME_POOL = ["a", "A", "b", "key", "Key", "k-1", "x.y", "n_2", "#h", "long-name", "B", "c", "d9", "e"]
ODD_NAMES = ["with space", "semi;colon", "quo\"te", "back\\slash", "{brace}", "(par)", "com,ma", "tab\there", "nl\nname", "hi\xe9", "/*c*/", "//x", ""]


def name_s():
    return st.one_of(st.sampled_from(NAME_POOL), st.sampled_from(NAME_POOL), st.sampled_from(ODD_NAMES),
                     st.text(TOKCH, min_size=1, max_size=6))


BYTES_ALL = "".join(chr(i) for i in range(1, 256))


def value_s():
    return st.one_of(
        st.text(TOKCH, min_size=1, max_size=8),
        st.text(TOKCH + " ", min_size=0, max_size=10),
        st.text(BYTES_ALL, min_size=0, max_size=12),
        st.sampled_from(["", " ", "a b", "\"", "\\", "\\\\", "}", "{", ";", ",", "(", ")", "/*", "*/", "//", "\n", "\t", "x\ny", "\x07\x08\x0c\n\r\t\x0b",
                         "\\x41", "\\n", "tr\"ail\\", "\xff\xfe", "file:iauthd.log", "127.0.0.0/8"]),
    )


@st.composite
def entries_s(draw, depth, max_entries=6):
    n = draw(st.integers(0, max_entries))
    out = []
    for _ in range(n):
        nm = draw(name_s())
        k = draw(st.sampled_from(["s", "s", "s", "l", "l", "a", "o"] if depth > 0 else ["s", "s", "l", "a"]))
        if k == "s":
            out.append([nm, "s", draw(value_s())])
        elif k == "a":
            out.append([nm, "a", [draw(value_s()), draw(value_s())]])
        elif k == "l":
            out.append([nm, "l", draw(st.lists(value_s(), max_size=5))])
        else:
            out.append([nm, "o", draw(entries_s(depth - 1, max_entries=4))])
    if out and draw(st.integers(0, 3)) == 0:
        # a repeated key (same kind): override / merge
        src = draw(st.sampled_from(out))
        nm = draw(st.sampled_from([src[0], src[0].swapcase()]))
        if src[1] == "s":
            out.append([nm, "s", draw(value_s())])
        elif src[1] == "l":
            out.append([nm, "l", draw(st.lists(value_s(), max_size=3))])
        elif src[1] == "a":
            out.append([nm, "a", [draw(value_s()), draw(value_s())]])
        else:
            out.append([nm, "o", draw(entries_s(max(0, depth - 1), max_entries=3))])
    return out


# ---------------------------------------------------------------------------
# rendering with layout freedom

NAMED_ESC = {"\x07": "a", "\x08": "b", "\x0c": "f", "\n": "n", "\r": "r", "\t": "t", "\x0b": "v"}
UNKNOWN_ESC_OK = "/ ',;(){}#-_.:!?@cdeghijklmopqsuwyzABCDEFGHIJKLMNOPQRSTUVWXYZ0123456789"


class Layout:
    """Draws layout decisions from a Hypothesis data source and records the
    features used."""

    def __init__(self, draw, simple=False):
        self.draw = draw
        self.feat = set()
        self.simple = simple

    def pick(self, options):
        return self.draw(st.sampled_from(options))

    def ws(self, need=False, newline_ok=False):
        opts = [" ", " ", "  ", "\t", "\x0c", " \x0b ", " /* c */ ", "/**/ ", " /* multi\n line */ " if newline_ok else " /*x*/ ",
                " /** doc **/ ", "/***/ ", " /* a * b / c */ ", " /*/ slash */ ", " /* // not cpp */ "]
        if not need:
            opts += ["", ""]
        if newline_ok:
            opts += ["\n", "\n  ", " // cpp comment\n ", "\r\n"]
        w = self.pick(opts)
        if "/*" in w:
            self.feat.add("c_comment")
        if "//" in w:
            self.feat.add("cpp_comment")
        return w

    def string(self, s, force_quote=False):
        bare_ok = s != "" and all(c in TOKCH for c in s) and not force_quote
        if bare_ok and self.pick([True, True, False]):
            self.feat.add("bare")
            return s
        self.feat.add("quoted")
        out = ['"']
        for i, c in enumerate(s):
            forms = []
            if c in NAMED_ESC:
                forms += ["\\" + NAMED_ESC[c]] * 3
            if c == '"':
                forms = ['\\"', "\\x22"]
            elif c == "\\":
                forms = ["\\\\", "\\x5c", "\\x5C"]
            else:
                forms.append("\\x%02x" % ord(c))
                if c not in NAMED_ESC and c != "\n":
                    forms += [c, c, c, c]
                if c in UNKNOWN_ESC_OK:
                    forms.append("\\" + c)
            f = self.pick(forms)
            if f.startswith("\\x"):
                self.feat.add("hex_escape")
            elif f.startswith("\\") and len(f) == 2 and f[1] in "abfnrtv":
                self.feat.add("named_escape")
            elif f.startswith("\\") and f[1] not in '"\\':
                self.feat.add("unknown_escape")
            out.append(f)
        out.append('"')
        return "".join(out)

    def term(self):
        t = self.pick([";", "\n", ";\n", "\n\n", " ;", " \n", "; // trailing comment\n", " /* c */ ;",
                       # a remark whose own end of line is what terminates the entry
                       " // remark\n", "\t// remark; with } punctuation\n", " /* c */ // both\n",
                       # ... also when it starts right after the value, without any blank
                       "// tight\n", "/* tight */;", "/**/\n"])
        self.feat.add("semicolon" if ";" in t else "newline_term")
        return t

    def entries(self, entries, nested):
        parts = []
        for idx, (name, kind, val) in enumerate(entries):
            last = idx == len(entries) - 1
            parts.append(self.ws(newline_ok=True))
            parts.append(self.string(name))
            if kind == "s":
                parts.append(self.ws(need=True, newline_ok=self.pick([False, False, False, True])))
                parts.append(self.string(val))
                if nested and last and self.pick([True, False, False]):
                    # string value directly followed by the closing brace
                    adj = self.pick(["", " ", "  "])
                    self.feat.add("value_then_brace" + ("_nospace" if adj == "" else ""))
                    parts.append(adj)
                    return "".join(parts), True
                parts.append(self.term())
            elif kind == "a":
                parts.append(self.ws(need=True))
                parts.append(self.string(val[0]))
                parts.append(self.ws(need=True))
                # the service token must not look like a terminator, comma or brace: quoting rules take care of that
                parts.append(self.string(val[1]))
                parts.append(self.term())
                self.feat.add("inaddr")
            elif kind == "l":
                if len(val) >= 2 and self.pick([True, False]):
                    self.feat.add("comma_list")
                    parts.append(self.ws(need=True))
                    for j, it in enumerate(val):
                        if j:
                            parts.append(self.pick([",", ", ", " , ", ",\t"]))
                        parts.append(self.string(it))
                    t = self.pick(["\n", ";", ";\n", "\n\n"])
                    if t in ("\n", ";"):
                        self.feat.add("comma_list_single_terminator")
                    parts.append(t)
                else:
                    self.feat.add("paren_list")
                    parts.append(self.ws())
                    parts.append("(")
                    for j, it in enumerate(val):
                        if j:
                            parts.append(self.ws(newline_ok=True) + "," + self.ws(newline_ok=True))
                        else:
                            parts.append(self.ws(newline_ok=True))
                        parts.append(self.string(it))
                    parts.append(self.ws(newline_ok=True) + ")")
                    parts.append(self.term())
            else:
                self.feat.add("object")
                parts.append(self.ws())
                parts.append("{")
                body, closed = self.entries(val, True)
                parts.append(body)
                if not closed:
                    parts.append(self.ws(newline_ok=True))
                parts.append("}")
                parts.append(self.term())
        return "".join(parts), False


@st.composite
def c16_tree_s(draw, tier):
    entries = draw(entries_s(2 if tier == "quick" else 3))
    lay = Layout(draw)
    text, _ = lay.entries(entries, False)
    text += draw(st.sampled_from(["", "\n", " ", "/* end */\n", "// end\n"]))
    if not text.endswith("\n") and not text.rstrip(" ").endswith(";"):
        text += "\n"
    return {"mode": "tree", "entries": entries, "text": text, "features": sorted(lay.feat)}


# ---- typed values

@st.composite
def interval_s(draw):
    units = {"y": 365 * 86400, "d": 86400, "h": 3600, "m": 60, "s": 1}
    chosen = draw(st.lists(st.sampled_from("ydhms"), max_size=4, unique=True))
    txt = ""
    total = 0
    for u in chosen:
        n = draw(st.integers(0, 99 if u != "y" else 9))
        txt += draw(st.sampled_from(["%d%s", "%d%s", "%02d%s", "%03d%s", "%04d%s"])) % (n, u)     # components are decimal however they are padded
        total += n * units[u]
    k = draw(st.integers(0, 2))
    if k == 0 or not txt:
        h, m, s = draw(st.integers(0, 99)), draw(st.integers(0, 99)), draw(st.integers(0, 99))
        txt += "%02d:%02d:%02d" % (h, m, s)
        total += h * 3600 + m * 60 + s
    elif k == 1:
        n = draw(st.integers(0, 9999))
        txt += str(n) if draw(st.integers(0, 3)) else "0%d" % n
        total += n
    return txt, total


@st.composite
def volume_s(draw):
    units = {"G": 1 << 30, "M": 1 << 20, "K": 1 << 10, "B": 1}
    chosen = draw(st.lists(st.sampled_from("GMKB"), max_size=4, unique=True))
    txt = ""
    total = 0
    for u in chosen:
        n = draw(st.integers(0, 3 if u == "G" else 999))
        txt += "%d%s" % (n, u if draw(st.booleans()) else u.lower())
        total += n * units[u]
    if not txt or draw(st.booleans()):
        n = draw(st.integers(0, 99999))
        txt += str(n)
        total += n
    return txt, total


@st.composite
def typed_value_s(draw):
    """-> (subtype, good text, expected repr, bad text)"""
    sub = draw(st.integers(1, 5))
    if sub == 1:
        t = draw(st.sampled_from(["0", "false", "off", "disabled", "no", "1", "true", "on", "enabled", "yes"]))
        exp = "1" if t in ("1", "true", "on", "enabled", "yes") else "0"
        bad = draw(st.sampled_from(["pizza", "TRUE", "2", "yess", "o n"]))
    elif sub == 2:
        n = draw(st.one_of(st.integers(0, 1000), st.integers(0, 2 ** 31 - 1), st.sampled_from([0, 1, 7, 8, 255, 2 ** 31 - 1])))
        t = draw(st.sampled_from(["%d", "0%o", "0x%x", "0X%X"])) % n
        if t == "00":
            t = "0"
        sign = draw(st.sampled_from(["", "", "", "-", "-", "+"]))
        if sign == "-" and n == 0:
            sign = ""
        t = sign + t                      # an integer may be negative (or carry an explicit plus sign)
        if sign == "-":
            n = -n
        exp = str(n)
        bad = draw(st.sampled_from(["12x", "pizza", "0x", "1 2", "08", "3.5"]))
    elif sub == 3:
        f = draw(st.sampled_from([0.0, 8.0, 1.5, -2.5, 1000.0, 0.125, 123456.75]))
        t = draw(st.sampled_from([repr(f), "%g" % f, "%e" % f]))
        exp = repr(float(t))
        bad = draw(st.sampled_from(["1.2.3", "abc", "1e", "8.0x"]))
    elif sub == 4:
        t, tot = draw(interval_s())
        exp = str(tot)
        bad = draw(st.sampled_from(["123z", "1:2:3:", "5x", "1h2q", "pizza", "0x10", "1h0x2m"]))
    else:
        t, tot = draw(volume_s())
        exp = str(tot)
        bad = draw(st.sampled_from(["5z", "5z3", "12 3", "1Gx", "pizza2"]))
    return sub, t, exp, bad


@st.composite
def c16_typed_s(draw, tier):
    n = draw(st.integers(1, 4))
    items = [draw(typed_value_s()) for _ in range(n)]
    lay = Layout(draw)
    return {"mode": "typed", "items": [list(i) for i in items],
            "layout_seed": [lay.string(i[1], force_quote=not all(c in TOKCH for c in i[1])) for i in items],
            "bad_render": [lay.string(i[3], force_quote=True) for i in items]}


def c16_s(pid, tier, opts=None):
    return st.one_of(c16_tree_s(tier), c16_tree_s(tier), c16_typed_s(tier))


# ---------------------------------------------------------------------------
# contexts

def make_context(pid, tier, widx, opts):
    root = os.path.join(vc.BUILD, "tmp", "%d-%d" % (os.getpid(), widx))
    os.makedirs(root, exist_ok=True)
    return {"pid": pid, "tier": tier, "root": root, "bin": build(), "n": 0}


def close_context(ctx):
    shutil.rmtree(ctx["root"], ignore_errors=True)


def write(ctx, name, text):
    p = os.path.join(ctx["root"], name)
    with open(p, "wb") as fh:
        fh.write(text.encode("latin-1") if isinstance(text, str) else text)
    return p


# ---------------------------------------------------------------------------
# C16 evaluation

def eval_c16(case, ctx):
    res = CaseResult()
    if case["mode"] == "tree":
        f = write(ctx, "a.conf", case["text"])
        r = run_confh(ctx["bin"], ["load " + f, "dump", "logs"])
        m = mem_report(r.stderr)
        if m or r.crashed:
            res.violations.append(V("C14", "memory_error", "parser crashed or reported a memory error on a valid file: %s" % (m or r.stderr[-200:])))
            res.violations.append(V("C16", "crash_on_valid_file", "parser died on a file in the documented syntax: %s" % (m or r.stderr[-200:])))
            return res
        rc = r.responses[0][0]
        feats = set(case["features"])
        res.classes |= {"f_" + x for x in feats}
        if rc != "L 0":
            sig = "valid_file_rejected"
            if "value_then_brace_nospace" in feats:
                sig = "value_then_brace_rejected"
            elif "comma_list_single_terminator" in feats:
                sig = "comma_list_single_terminator_rejected"
            res.violations.append(V("C16", sig, "file in the documented syntax was rejected (%s): %s; features %s"
                                    % (rc, "; ".join(r.responses[2])[:200], sorted(feats))))
            return res
        dump, problems = parse_dump(r.responses[1])
        model = tree_model(case["entries"])
        diffs = list(problems)
        cmp_tree(model, dump, "", diffs)
        if diffs:
            res.violations.append(V("C16", "tree_differs", "; ".join(diffs[:3])))
        esc = feats & {"hex_escape", "named_escape", "unknown_escape", "value_then_brace", "value_then_brace_nospace", "comma_list_single_terminator"}
        res.nontrivial = len(feats) >= 3 and bool(esc)
        return res
    # typed settings: value written -> value delivered; unparsable sibling leaves it in force
    cmds = []
    good = ["typed {"]
    bad = ["typed {"]
    for i, (sub, t, exp, b) in enumerate(case["items"]):
        cmds.append("reg_str %s %s %d %s" % (hx("typed"), hx("v%d" % i), sub, hx({1: "0", 2: "0", 3: "0", 4: "0", 5: "0"}[sub])))
        good.append("  v%d %s;" % (i, case["layout_seed"][i]))
        bad.append("  v%d %s;" % (i, case["bad_render"][i]))
    good.append("};")
    bad.append("};")
    f1 = write(ctx, "good.conf", "\n".join(good) + "\n")
    f2 = write(ctx, "bad.conf", "\n".join(bad) + "\n")
    cmds += ["load " + f1, "dump", "load " + f2, "dump"]
    for (sub, t, exp, b) in case["items"]:
        cmds.append("typed %d %s" % (sub, hx(t)))
        cmds.append("typed %d %s" % (sub, hx(b)))
    r = run_confh(ctx["bin"], cmds)
    m = mem_report(r.stderr)
    if m or r.crashed:
        res.violations.append(V("C16", "crash_on_valid_file", "harness died on typed settings: %s" % (m or r.stderr[-200:])))
        return res
    n = len(case["items"])
    if r.responses[n][0] != "L 0" or r.responses[n + 2][0] != "L 0":
        res.violations.append(V("C16", "valid_file_rejected", "typed-settings file rejected: %s / %s" % (r.responses[n][0], r.responses[n + 2][0])))
        return res
    d1, _ = parse_dump(r.responses[n + 1])
    d2, _ = parse_dump(r.responses[n + 3])
    for i, (sub, t, exp, b) in enumerate(case["items"]):
        k = ("typed", "o")
        n1 = d1[k]["children"].get(("v%d" % i, "s"))
        n2 = d2[k]["children"].get(("v%d" % i, "s"))
        got1 = n1["parsed"] if n1 else None
        got2 = n2["parsed"] if n2 else None
        ok1 = got1 == exp if sub != 3 else (got1 is not None and float(got1) == float(exp))
        if not ok1:
            res.violations.append(V("C16", "typed_value_wrong", "subtype %d: %r delivered %s, expected %s" % (sub, t, got1, exp)))
        elif got2 != got1:
            sig = "unparsable_value_accepted"
            res.violations.append(V("C16", sig, "subtype %d: after the unparsable value %r the setting is %s instead of staying %s" % (sub, b, got2, got1)))
        tg = r.responses[n + 4 + 2 * i][0].split(" ")
        tb = r.responses[n + 5 + 2 * i][0].split(" ")
        if tg[1] != "1":
            res.violations.append(V("C16", "typed_value_wrong", "conf_parse of %r (subtype %d) reports failure" % (t, sub)))
        if tb[1] != "0":
            res.violations.append(V("C16", "unparsable_value_accepted", "conf_parse of the unparsable %r (subtype %d) reports success with value %s" % (b, sub, tb[2])))
        res.classes.add("typed_%d" % sub)
    res.nontrivial = True
    return res


# ---------------------------------------------------------------------------
# C14: totality + atomicity

UNIVERSE_REG = [
    # (parent path components, name, kind, params)
    (["ra"], "s1", "s", (0, "dflt")), (["ra"], "s2", "s", (0, None)), (["ra"], "i1", "s", (2, "7")), (["ra"], "b1", "s", (1, "true")),
    (["ra"], "iv", "s", (4, "30")), (["ra"], "vol", "s", (5, "1K")), (["ra"], "fl", "s", (3, "1.5")),
    (["ra"], "l1", "l", (["x", "y"],)), (["ra"], "l2", "l", ([],)), (["ra"], "ad", "a", ("::1", "80")),
    (["ra", "sub"], "s3", "s", (0, "deep")), ([], "top", "s", (0, "t")), (["rb"], "s1", "s", (0, "other")),
    # typed settings registered without a default: leaving them out of the next file is a change back to "nothing"
    (["ra"], "fl2", "s", (3, None)), (["ra"], "i2", "s", (2, None)), (["rb"], "b2", "s", (1, None)),
]


def reg_cmds(regs, nohook=()):
    out = []
    for parent, name, kind, params in regs:
        path = "/".join(hx(p) for p in parent) or "."
        if parent:
            out.append("reg_obj " + path)
        if kind == "s":
            out.append("reg_str %s %s %d %s%s" % (path, hx(name), params[0], hx(params[1]), " nohook" if (tuple(parent), name) in nohook else ""))
        elif kind == "l":
            out.append("reg_list %s %s %d %s" % (path, hx(name), len(params[0]), " ".join(hx(x) for x in params[0])))
        elif kind == "a":
            out.append("reg_inaddr %s %s %s %s" % (path, hx(name), hx(params[0]), hx(params[1])))
    return out


def corpus_files():
    fs = sorted(glob.glob(os.path.join(vc.REPO, "tests", "*.conf")) + glob.glob(os.path.join(vc.REPO, "doc", "*.conf.example")))
    out = []
    for f in fs:
        with open(f, "rb") as fh:
            out.append(fh.read().decode("latin-1"))
    out.append("ra { s1 one; s2 \"two\"; i1 0x10; b1 off; iv 1h; vol 2M; fl 2.5; l1 (p, q, r); l2 (z); ad \"::2\" 8080; sub { s3 x; un 1 } ; extra (1); };\n"
               "top level;\nrb { s1 bee; obj { k v }; };\nstray { a b; c (d); };\n")
    out.append("ra { s1 \"\\x41\\n\"; l1 (); ad host svc; }\nrb { }\n")
    return out


UNIVERSE_NAMES = ["s1", "s2", "i1", "l1", "l2", "ad", "un", "extra", "S1", "fl", "b1", "fl2", "i2", "b2"]


@st.composite
def universe_entries_s(draw, depth=1):
    """Valid files over the registration universe (so that loads interact with registered nodes)."""
    def leaf(nm):
        k = draw(st.sampled_from(["s", "s", "l", "a"]))
        if nm in ("l1", "l2", "extra"):
            k = draw(st.sampled_from(["l", "l", "s"]))
        if nm == "ad":
            k = draw(st.sampled_from(["a", "a", "s"]))
        if nm in ("s1", "s2", "i1", "i2", "S1"):
            k = draw(st.sampled_from(["s", "s", "s", "l"]))
        if nm in ("fl", "fl2"):
            # float settings, including values that differ from each other (and from the default 1.5) by less than 1e-6
            return [nm, "s", draw(st.sampled_from(["1.5", "2.5", "0.5", "0.5000004", "1.5000001", "1.4999999", "0.0000005", "0", "-0.0000003", "1e3", "bad", "1e-400", "1e999", "-1e999"]))]
        if nm in ("b1", "b2"):
            return [nm, "s", draw(st.sampled_from(["true", "false", "on", "off", "1", "0", "yes", "no", "maybe"]))]
        if k == "s":
            v = draw(st.sampled_from(["one", "two", "dflt", "7", "0x10", "", "x y", "deep", "t", "One", "ONE", "Dflt", "T"])) if nm not in ("i1", "i2") else draw(st.sampled_from(["7", "8", "0x10", "bad", "-7"]))
            return [nm, "s", v]
        if k == "l":
            return [nm, "l", draw(st.lists(st.sampled_from(["x", "y", "z", "", "X", "Y"]), max_size=3))]
        return [nm, "a", [draw(st.sampled_from(["::1", "::2", "host", "HOST", "host2"])), draw(st.sampled_from(["80", "8080", "http", "HTTP", "https", "ircd", "ircs"]))]]
    top = []
    for obj in draw(st.lists(st.sampled_from(["ra", "rb", "stray", "RA"]), max_size=3, unique_by=lambda s: s.lower())):
        ents = [leaf(nm) for nm in draw(st.lists(st.sampled_from(UNIVERSE_NAMES), max_size=5, unique=True))]
        if draw(st.booleans()):
            ents.append(["sub", "o", [leaf(nm) for nm in draw(st.lists(st.sampled_from(["s3", "un", "l1"]), max_size=2, unique=True))]])
        top.append([obj, "o", ents])
    if draw(st.booleans()):
        top.append(["top", "s", draw(st.sampled_from(["t", "level", ""]))])
    return top


def render_simple(entries, indent=""):
    from daemon import quote
    out = []
    for name, kind, val in entries:
        if kind == "s":
            out.append("%s%s %s;" % (indent, quote(name), quote(val)))
        elif kind == "a":
            out.append("%s%s %s %s;" % (indent, quote(name), quote(val[0]), quote(val[1])))
        elif kind == "l":
            out.append("%s%s ( %s );" % (indent, quote(name), ", ".join(quote(v) for v in val)))
        else:
            out.append("%s%s {" % (indent, quote(name)))
            out.append(render_simple(val, indent + "  "))
            out.append("%s};" % indent)
    return "\n".join(out) + ("\n" if not indent else "")


@st.composite
def c14_s(draw, pid, tier, opts=None):
    corp = corpus_files()
    nreg = draw(st.integers(0, len(UNIVERSE_REG)))
    regs = draw(st.permutations(list(range(len(UNIVERSE_REG)))))[:nreg]
    prior = []
    for _ in range(draw(st.integers(0, 3))):
        if draw(st.booleans()):
            prior.append(draw(st.sampled_from(corp)))
        else:
            prior.append(render_simple(draw(universe_entries_s())))
    base = draw(st.sampled_from(corp)) if draw(st.integers(0, 2)) else render_simple(draw(universe_entries_s()))
    if draw(st.integers(0, 15)) == 0:
        # sections nested far deeper than any shipped file, the same section written twice, an error deep inside
        d_ = draw(st.sampled_from([7, 8, 9, 10, 11, 16, 33, 70]))
        names_ = [draw(st.sampled_from(["ra", "rb", "sub", "n", "deep"])) for _ in range(d_)]
        inner = draw(st.sampled_from(["leaf 1;", "s1 x; l1 (a, b);", "", "leaf (a b);", "leaf \"unterminated;"]))
        base = "".join(n_ + " { " for n_ in names_) + inner + " }" * d_ + "\n"
        if draw(st.booleans()):
            base = base + base if draw(st.booleans()) else base + "".join(n_ + " { " for n_ in names_[:draw(st.integers(1, d_))]) + "x ( ;\n"
    k = draw(st.integers(0, 6))
    if k == 0:
        cand = base[:draw(st.integers(0, len(base)))]
        how = "prefix"
    elif k == 1 and base:
        pos = draw(st.integers(0, len(base) - 1))
        cand = base[:pos] + chr(ord(base[pos]) ^ draw(st.sampled_from([1, 2, 4, 8, 16, 32, 64, 128]))) + base[pos + 1:]
        how = "bitflip"
    elif k == 2:
        pos = draw(st.integers(0, len(base)))
        cand = base[:pos] + draw(st.sampled_from(["{", "}", "(", ")", "\"", ",", ";", "\\", "/*", "\x00", "\n", "\"\\", "a b c", "((", "\xef\xbb\xbf"])) + base[pos:]
        how = "insert"
    elif k == 3 and base:
        a = draw(st.integers(0, len(base) - 1))
        b = draw(st.integers(a, min(len(base), a + 12)))
        cand = base[:a] + base[b:]
        how = "delete"
    elif k == 4:
        cand = draw(st.text(BYTES_ALL + "\x00", max_size=60))
        how = "random"
    elif k == 5:
        cand = draw(st.text("{}();,\"\\ \nab/*", max_size=40))
        how = "grammar_soup"
    else:
        cand = base
        how = "valid"
    nohook = [i for i in regs if UNIVERSE_REG[i][2] == "s" and draw(st.integers(0, 3)) == 0]     # string settings whose consumer installed no change hook
    return {"regs": list(regs), "prior": prior, "cand": cand, "how": how, "nohook": nohook}


def eval_c14(case, ctx):
    res = CaseResult()
    cmds = reg_cmds([UNIVERSE_REG[i] for i in case["regs"]], nohook={(tuple(UNIVERSE_REG[i][0]), UNIVERSE_REG[i][1]) for i in case.get("nohook", [])})
    for i, p in enumerate(case["prior"]):
        cmds.append("load " + write(ctx, "prior%d.conf" % i, p))
    nb = len(cmds)
    cmds += ["dump", "hooks", "load " + write(ctx, "cand.conf", case["cand"]), "dump", "hooks"]
    r = run_confh(ctx["bin"], cmds)
    m = mem_report(r.stderr)
    if m or (r.crashed and r.rc not in (0,)):
        if r.rc == 3 and "FATAL" in "".join(sum(r.responses, [])):
            res.inconclusive = "fatal_log"
            return res
        res.violations.append(V("C14", "memory_error", "conf_read on %d candidate bytes (%s): %s" % (len(case["cand"]), case["how"], m or ("exit %s %s" % (r.rc, r.stderr[-200:])))))
        return res
    before, hooks_before, rc, after, hooks_after = r.responses[nb:nb + 5]
    res.classes.add("how_" + case["how"])
    if rc[0] != "L 0":
        res.classes.add("rejected")
        if before != after:
            d0, _ = parse_dump(before)
            d1, _ = parse_dump(after)
            diff = [l for l in after if l not in before][:2] + [l for l in before if l not in after][:2]
            res.violations.append(V("C14", "failed_load_changed_tree", "load failed (%s) but the live configuration changed: %s" % (rc[0], diff)))
        if hooks_after:
            res.violations.append(V("C14", "failed_load_notified", "load failed (%s) but change hooks ran: %s" % (rc[0], hooks_after[:3])))
        # non-trivial: failed after at least one complete entry was parsed
        c = case["cand"]
        if (";" in c or "\n" in c.strip()) and len(c) > 8:
            res.nontrivial = True
    else:
        res.classes.add("accepted")
    return res


# ---------------------------------------------------------------------------
# C15: reload determinism (model based)

@st.composite
def c15_s(draw, pid, tier, opts=None):
    nloads = draw(st.integers(1, 4 if tier == "quick" else 5))
    files = [draw(universe_entries_s()) for _ in range(nloads)]
    if nloads >= 2 and draw(st.integers(0, 3)) == 0:
        files[-1] = files[-2]          # same content twice
    nreg = draw(st.integers(0, len(UNIVERSE_REG)))
    regs = draw(st.permutations(list(range(len(UNIVERSE_REG)))))[:nreg]
    points = [draw(st.integers(0, nloads)) for _ in regs]    # registration happens before load #point (nloads = after the last)
    if nloads >= 2 and draw(st.integers(0, 7)) == 0:
        # one setting followed through every load: consecutive files give the same registered setting values that
        # differ a little (one half of an address pair, letter case, the spelling of a number), or leave it out so
        # that its default takes over
        ri = draw(st.sampled_from([9, 9, 9, 0, 2, 3, 4, 6, 7]))
        parent, name, kind, params = UNIVERSE_REG[ri]
        host = draw(st.sampled_from(["::1", "host", "HOST"]))
        for f_ in files:
            f_[:] = [e_ for e_ in f_ if not (e_[1] == "o" and e_[0].lower() == "ra")]
            if draw(st.integers(0, 5)) == 0:
                continue
            if kind == "a":
                val = [host if draw(st.integers(0, 4)) else host.swapcase(), draw(st.sampled_from(["http", "https", "ircd", "ircs", "80", "080", "HTTP", "8080"]))]
            elif kind == "l":
                val = draw(st.lists(st.sampled_from(["x", "y", "X", ""]), max_size=3))
            else:
                val = draw(st.sampled_from({0: ["dflt", "Dflt", "dflt ", "x"], 1: ["true", "on", "off", "1", "yes", "TRUE"], 2: ["7", "07", "0x7", "8", "-7"],
                                            3: ["1.5", "1.50", "15e-1", "1.4999999"], 4: ["30", "0:30", "1m", "30s"]}[params[0]]))
            f_.append(["ra", "o", [[name, kind, val]]])
        if ri not in regs:
            regs = list(regs) + [ri]
            points = points + [draw(st.sampled_from([0, 0, 1]))]
    case = {"files": files, "regs": list(regs), "points": points}
    if draw(st.integers(0, 5)) == 0:
        # before some of the loads a broken version of the same file is offered first (keys are strings for JSON)
        case["broken"] = {str(k_): draw(st.booleans()) for k_ in draw(st.lists(st.integers(0, nloads - 1), min_size=1, max_size=2, unique=True))}
    if False and len(regs) >= 2:
        # DISABLED (DESIGN 11.4): registration from inside a change hook is not something any caller does, and the
        # unchanged merge walk does not support it (a node registered while the walk stands on a neighbour that exists
        # on one side only is skipped and then replaced by the file's node).  The harness support (reg_onhook) and the
        # evaluator code stay for replaying old cases; nothing generates such cases any more.
        strs = [j for j, ri in enumerate(regs) if UNIVERSE_REG[ri][2] == "s"]
        hookregs = []
        for j in draw(st.lists(st.sampled_from(strs), max_size=2, unique=True)) if strs else []:
            t = draw(st.sampled_from([x for x in range(len(regs)) if x != j]))
            if all(t != hj for hj, _ in hookregs) and all(j != ht for _, ht in hookregs):
                hookregs.append([j, t])
                points[j] = -1
        case["hookregs"] = hookregs
    return case


def effective(node):
    """Effective value of a registered setting as seen in a dump."""
    if node is None:
        return None
    if node["kind"] == "s":
        if node.get("subtype", 0) == 0:
            return node["value"]
        return node.get("parsed")
    if node["kind"] == "a":
        # Host names (DNS) and service names (RFC 6335) are case-insensitive and config.c
        # deliberately compares them with strcasecmp: a case-only edit is not a change of
        # the pair's effective value (DESIGN 11.4).  The stored text itself is still
        # compared byte for byte by the model check on the dump.
        v = node["value"]
        return [lkey(x) if isinstance(x, str) else x for x in v] if isinstance(v, (list, tuple)) else v
    return node["value"]


def lookup(dump, parent, name, kind):
    cur = dump
    for p in parent:
        n = cur.get((lkey(p), "o"))
        if n is None:
            return None
        cur = n["children"]
    return cur.get((lkey(name), kind))


def model_final(last_entries, regs):
    """Expected: registered settings' values, and the set of present unregistered nodes."""
    tree = tree_model(last_entries)
    exp = {}
    for parent, name, kind, params in regs:
        cur = tree
        node = None
        ok = True
        for p in parent:
            n = cur.get((lkey(p), "o"))
            if n is None:
                ok = False
                break
            cur = n["children"]
        if ok:
            node = cur.get((lkey(name), kind))
        if node is not None:
            val = node["value"]
            if kind == "l":
                val = list(val)
        else:
            val = params[1] if kind == "s" else (list(params[0]) if kind == "l" else [params[0], params[1]])
        exp[(tuple(parent), name, kind)] = (val, params[0] if kind == "s" else None)
    return tree, exp


def typed_expect(sub, text):
    """Expected parsed repr for the typed subtypes used in the universe (None = unparsable)."""
    if text is None:
        return None
    try:
        if sub == 2:
            return str(int(text, 0)) if text.strip() == text and text else ("0" if text == "" else None)
        if sub == 3:
            return "%.17g" % float(text)
        if sub == 1:
            return {"0": "0", "false": "0", "off": "0", "disabled": "0", "no": "0", "1": "1", "true": "1", "on": "1", "enabled": "1", "yes": "1"}.get(text)
    except ValueError:
        return None
    return "?"


def present_unregistered(dump, regs_keys, path=()):
    out = set()
    for (lname, kind), n in dump.items():
        key = (tuple(lkey(p) for p in path), lname, kind)
        if kind == "o":
            if n["present"] and not n["specified"]:
                out.add(key)
            out |= present_unregistered(n["children"], regs_keys, path + (n["name"],))
        elif not n["specified"] and n["present"]:
            out.add(key)
    return out


def model_unregistered(tree, regs, path=()):
    out = set()
    regkeys = {(tuple(lkey(p) for p in parent), lkey(name), kind) for parent, name, kind, _ in regs}
    regobjs = set()
    for parent, name, kind, _ in regs:
        for i in range(1, len(parent) + 1):
            regobjs.add((tuple(lkey(p) for p in parent[:i - 1]), lkey(parent[i - 1]), "o"))

    def walk(t, path):
        for (lname, kind), n in t.items():
            key = (path, lname, kind)
            if kind == "o":
                if key not in regobjs:
                    out.add(key)
                walk(n["children"], path + (lname,))
            elif key not in regkeys:
                out.add(key)
    walk(tree, ())
    return out


def eval_c15(case, ctx):
    res = CaseResult()
    files = case["files"]
    nloads = len(files)
    regs = [UNIVERSE_REG[i] for i in case["regs"]]
    paths = [write(ctx, "f%d.conf" % i, render_simple(f)) for i, f in enumerate(files)]
    cmds = []
    marks = []     # (index of 'L' response, dump-before idx, dump-after idx, hooks idx)
    hookregs = [tuple(x) for x in case.get("hookregs") or []]
    broken_before = {int(k_): v_ for k_, v_ in (case.get("broken") or {}).items()}
    broken_marks = []
    for k in range(nloads + 1):
        here = [regs[j] for j, p in enumerate(case["points"]) if p == k]
        cmds += reg_cmds(here)
        for hi, (j, t) in enumerate(hookregs):
            if case["points"][t] == k:
                tp, tn = regs[t][0], regs[t][1]
                jp, jn, _, jpar = regs[j]
                cmds.append("reg_onhook %s %s %s %d %s %d" % ("/".join(hx(lkey(x)) for x in tp + [tn]), "/".join(hx(x) for x in jp) or ".", hx(jn), jpar[0], hx(jpar[1]), hi))
        if k < nloads:
            if k in broken_before:
                # a file that breaks off in the middle of a list: must be rejected, change nothing - and leave nothing
                # behind for the loads that follow
                btxt = render_simple(files[k])
                cutp = btxt.find(", ")
                if cutp < 0:
                    cutp = btxt.find("( ")
                btxt = (btxt[:cutp + 2] if cutp >= 0 else btxt + "broken (a, b") + ("\"x" if broken_before[k] else "")
                cmds += ["dump", "hooks", "load " + write(ctx, "broken%d.conf" % k, btxt), "dump", "hooks"]
                broken_marks.append((len(cmds) - 3, len(cmds) - 5, len(cmds) - 2, len(cmds) - 1))
            cmds += ["dump", "hooks"]
            i_before = len(cmds) - 2
            cmds += ["load " + paths[k], "dump", "hooks"]
            marks.append((len(cmds) - 3, i_before, len(cmds) - 2, len(cmds) - 1))
    cmds += ["dump"]
    r = run_confh(ctx["bin"], cmds)
    m = mem_report(r.stderr)
    if m or r.crashed:
        sig = "memory_error_inaddr" if any(any(e[1] == "a" for e in _flatten(f)) for f in files) else "memory_error"
        res.violations.append(V("C15", sig, "memory error / crash during the load sequence: %s" % (m or r.stderr[-300:])))
        return res
    for (iL, _, _, _) in marks:
        if r.responses[iL][0] != "L 0":
            res.inconclusive = "valid_file_rejected"
            res.violations.append(V("C16", "valid_file_rejected", "conservatively rendered file rejected: %s" % r.responses[iL][0]))
            return res
    for (iL, iB, iA, iH) in broken_marks:
        res.classes.add("broken_file_between_loads")
        if r.responses[iL][0] == "L 0":
            res.classes.add("broken_file_was_accepted")       # the cut happened to leave a valid file: nothing to say
            res.inconclusive = "broken_file_accepted"
            return res
        if r.responses[iB] != r.responses[iA] or r.responses[iH]:
            res.violations.append(V("C14", "failed_load_changed_tree", "a rejected file changed the live tree or ran hooks"))
    final, problems = parse_dump(r.responses[-1])
    if problems:
        res.violations.append(V("C15", "tree_corrupt", "; ".join(problems[:2])))
    # registrations performed by hooks: "R <index> <path>" lines in the hook logs tell in which load they happened
    fired = {}
    for li, (iL, iB, iA, iH) in enumerate(marks):
        for h in r.responses[iH]:
            if h.startswith("R "):
                fired.setdefault(int(h.split(" ")[1]), li)
    for resp in r.responses:
        for h in resp:
            if isinstance(h, str) and h.startswith("R ") and int(h.split(" ")[1]) not in fired:
                fired[int(h.split(" ")[1])] = -1          # while registering, outside any load
    all_regs = regs
    hook_j = {j: hi for hi, (j, t) in enumerate(hookregs)}
    regs = [rg for j, rg in enumerate(all_regs) if j not in hook_j or hook_j[j] in fired]
    if hookregs:
        res.classes.add("registration_from_a_hook" if fired else "hook_registration_never_triggered")
    tree, exp = model_final(files[-1], regs)
    # (1) registered settings = file value or default
    for (parent, name, kind), (val, sub) in exp.items():
        node = lookup(final, parent, name, kind)
        where = "/".join(parent + (name,)) if parent else name
        if node is None:
            res.violations.append(V("C15", "registered_node_missing", "registered %s (%s) is not in the tree" % (where, kind)))
            continue
        if kind == "s" and sub not in (0, None):
            want = typed_expect(sub, val)
            if want in (None, "?"):
                continue          # unparsable or not modelled: C16's business
            if node.get("parsed") != want:
                res.violations.append(V("C15", "typed_value_wrong", "%s: parsed value %s, expected %s (text %r)" % (where, node.get("parsed"), want, val)))
            continue
        got = node["value"]
        if got != val:
            sig = {"s": "string_value_wrong", "l": "list_value_wrong", "a": "inaddr_value_wrong"}[kind]
            if kind == "a" and got == [None, None]:
                sig = "inaddr_default_missing"
            if kind == "l" and val == [] and got:
                sig = "empty_list_replaced_by_default"
            res.violations.append(V("C15", sig, "after the last load registered %s (%s) is %r, expected %r (file value or registered default)" % (where, kind, got, val)))
    # (1b) everything the last file says is there, with the value it says - registered or not
    diffs = []
    cmp_tree(tree, final, "", diffs, only_present=True)
    diffs = [d_ for d_ in diffs if "appeared although" not in d_]      # leftovers are judged by (2), defaults by (1)
    if diffs:
        res.violations.append(V("C15", "last_file_not_in_force", "after the last load the tree does not say what the last file says: %s" % diffs[:2]))
    # (2) unregistered leftovers are gone / exactly those of the last file
    got_un = present_unregistered(final, None)
    want_un = model_unregistered(tree, regs)
    if got_un != want_un:
        extra = sorted(got_un - want_un)[:3]
        missing = sorted(want_un - got_un)[:3]
        res.violations.append(V("C15", "unregistered_leftovers", "unregistered nodes differ from the last file: extra %r missing %r" % (extra, missing)))
    # (3) per load: hooks vs. effective value changes; idempotence of identical loads
    for li, (iL, iB, iA, iH) in enumerate(marks):
        before, _ = parse_dump(r.responses[iB])
        after, _ = parse_dump(r.responses[iA])
        hooks = [h for h in r.responses[iH] if not h.startswith("R ")]
        hooked = set()
        for h in hooks:
            t = h.split(" ")
            # node names keep the spelling of whoever created them first: compare case-insensitively
            hooked.add((int(t[1]), "." if t[2] == "." else "/".join(lkey(unhx(x)) for x in t[2].split("/"))))
        if li > 0 and files[li] == files[li - 1] and not any(p == li for p in case["points"]) and not any(v >= li - 1 for v in fired.values()):
            res.classes.add("identical_reload")
            if r.responses[iB] != r.responses[iA]:
                res.violations.append(V("C15", "identical_reload_changes", "loading the same content twice changed the tree"))
            if hooks:
                res.violations.append(V("C15", "identical_reload_notifies", "loading the same content twice ran hooks: %s" % hooks[:3]))
        active = [all_regs[j] for j, p in enumerate(case["points"]) if 0 <= p <= li]
        active += [all_regs[j] for j, hi in hook_j.items() if hi in fired and fired[hi] < li]
        for parent, name, kind, params in active:
            nb = lookup(before, parent, name, kind)
            na = lookup(after, parent, name, kind)
            if nb is None or na is None:
                continue
            if effective(nb) != effective(na):
                hp = "/".join(lkey(p) for p in parent + [name])
                if (KINDS[kind], hp) not in hooked:
                    sig = "hook_missing"
                    if kind == "s" and params[1] is None and effective(na) is None:
                        sig = "hook_missing_null_default"
                    res.violations.append(V("C15", sig, "load %d changed %s (%s) from %r to %r but its hook did not run" % (li, "/".join(parent + [name]), kind, effective(nb), effective(na))))
        # object membership
        objs = set()
        for parent, name, kind, params in active:
            for i in range(1, len(parent) + 1):
                objs.add(tuple(parent[:i]))
        for op in objs:
            ob = lookup(before, list(op[:-1]), op[-1], "o")
            oa = lookup(after, list(op[:-1]), op[-1], "o")
            if ob is None or oa is None:
                continue
            reg_now = {(lkey(all_regs[j][1]), all_regs[j][2]) for j, hi in hook_j.items()
                       if fired.get(hi) == li and tuple(all_regs[j][0]) == tuple(op)}
            # ... and so are the objects on the way to a setting registered deeper down
            reg_now |= {(lkey(all_regs[j][0][len(op)]), "o") for j, hi in hook_j.items()
                        if fired.get(hi) == li and len(all_regs[j][0]) > len(op) and tuple(all_regs[j][0][:len(op)]) == tuple(op)}
            if set(ob["children"].keys()) - reg_now != set(oa["children"].keys()) - reg_now:
                hp = "/".join(lkey(p) for p in op)
                if (3, hp) not in hooked:
                    res.violations.append(V("C15", "object_hook_missing", "load %d changed the membership of object %s but its hook did not run" % (li, "/".join(op))))
    kinds_seen = {e[1] for f in files for e in _flatten(f)}
    res.nontrivial = nloads >= 2 and len(kinds_seen) >= 3
    if any(p > 0 for p in case["points"]):
        res.classes.add("late_registration")
    return res


def _flatten(entries):
    out = []
    for e in entries:
        out.append(e)
        if e[1] == "o":
            out.extend(_flatten(e[2]))
    return out


# ---------------------------------------------------------------------------

def strategy(pid, tier, opts):
    return {"C14": c14_s, "C15": c15_s, "C16": c16_s}[pid](pid, tier, opts)


def evaluate(case, ctx):
    ctx["n"] += 1
    return {"C14": eval_c14, "C15": eval_c15, "C16": eval_c16}[ctx["pid"]](case, ctx)


# ---------------------------------------------------------------------------
# C14 extra phase: coverage-guided fuzzing of conf_read with the atomicity oracle
# inside the target (harness/confh.c built with -DCONFH_FUZZ)

def build_conf_fuzz():
    hsrc = vc.harness_path("confh.c")

    def b(out):
        srcs = [os.path.join(vc.REPO, "src", x) for x in ("config.c", "set.c", "common.c", "bitset.c")]
        vc._run(["clang", "-g", "-O1", "-DCONFH_FUZZ", "-fsanitize=fuzzer,address,undefined", "-fno-sanitize-recover=undefined"]
                + vc.DEFS + vc.inc_flags() + ["-w", hsrc] + srcs + ["-levent", "-o", os.path.join(out, "conf_fuzz")])
    return os.path.join(vc.cached_build("conffuzz", vc.repo_sources() + [hsrc], vc.DEFS, b), "conf_fuzz")


def build_conf_enum():
    hsrc = vc.harness_path("confh.c")

    def b(out):
        srcs = [os.path.join(vc.REPO, "src", x) for x in ("config.c", "set.c", "common.c", "bitset.c")]
        vc._run(["gcc", "-DCONFH_FUZZ", "-DCONFH_ENUM"] + vc.SAN + vc.DEFS + vc.inc_flags() + ["-w", hsrc] + srcs
                + ["-levent", "-o", os.path.join(out, "conf_enum")])
    return os.path.join(vc.cached_build("confenum", vc.repo_sources() + [hsrc], vc.DEFS, b), "conf_enum")


def enum_paths(tier, d):
    paths = []
    total = 0
    for j, txt in enumerate(corpus_files()):
        if tier == "quick" and len(txt) > 1500:
            continue          # the 3.5 KB example file is enumerated in the thorough tier only
        fp = os.path.join(d, "corp%d.conf" % j)
        with open(fp, "wb") as fh:
            fh.write(txt.encode("latin-1"))
        paths.append(fp)
        total += len(txt)
    return paths, total


def eval_enum_case(case, ctx):
    """Re-run one shard of the crash-point enumeration (deterministic) and report what it reports."""
    res = CaseResult()
    d = os.path.join(ctx["root"], "enumreplay")
    shutil.rmtree(d, ignore_errors=True)
    os.makedirs(d)
    paths, _ = enum_paths(case.get("tier", "quick"), d)
    env = dict(os.environ)
    env["ASAN_OPTIONS"] = "detect_leaks=0:abort_on_error=0"
    sd = os.path.join(d, "s")
    os.makedirs(sd)
    p = subprocess.run([build_conf_enum(), str(case["shard"]), str(case["nshards"]), sd] + paths, stdout=subprocess.PIPE, stderr=subprocess.PIPE, env=env)
    if p.returncode != 0 or os.path.exists(os.path.join(sd, "enum-fail-%d.bin" % case["shard"])):
        e = p.stderr.decode("latin-1")
        msg = "enumeration shard ended with status %d" % p.returncode
        for ln in e.splitlines():
            if "ERROR: AddressSanitizer" in ln or "runtime error" in ln or "ORACLE-FAIL" in ln or "Assertion" in ln:
                msg = ln.strip()[:300]
                break
        sig = "failed_load_changed_tree" if "configuration changed" in msg else ("failed_load_notified" if "hooks ran" in msg else "memory_error")
        res.violations.append(V("C14", sig, "crash-point enumeration, shard %d of %d: %s" % (case["shard"], case["nshards"], msg)))
    shutil.rmtree(d, ignore_errors=True)
    return res


def run_enum(tier, root, out):
    """Exhaustive crash-point enumeration (DESIGN 7, C14): every prefix, single-bit flip, single-byte deletion and
    grammar-token insertion at every position of every corpus file, on top of each of the 4 built-in prior states."""
    binary = build_conf_enum()
    d = os.path.join(root, "enum")
    os.makedirs(d, exist_ok=True)
    paths, total = enum_paths(tier, d)
    env = dict(os.environ)
    env["ASAN_OPTIONS"] = "detect_leaks=0:abort_on_error=0"
    procs = []
    for i in range(vc.NCPU):
        sd = os.path.join(d, "s%d" % i)
        os.makedirs(sd)
        procs.append((i, sd, vc.Proc([binary, str(i), str(vc.NCPU), sd] + paths, env=env)))
    n = 0
    ok = True
    kinds = {}
    for i, sd, pr in procs:
        o, e = pr.communicate()
        o = o.decode("latin-1")
        e = e.decode("latin-1")
        got = False
        for ln in o.splitlines():
            if ln.startswith("ENUM "):
                got = True
                for kv in ln.split()[1:]:
                    k, v = kv.split("=")
                    kinds[k] = kinds.get(k, 0) + int(v)
        fail = os.path.join(sd, "enum-fail-%d.bin" % i)
        if os.path.exists(fail):
            ok = False
            with open(fail, "rb") as fh:
                data = fh.read()
            msg = "enumerated candidate"
            for ln in e.splitlines():
                if "ERROR: AddressSanitizer" in ln or "runtime error" in ln or "ORACLE-FAIL" in ln or "Assertion" in ln:
                    msg = ln.strip()[:300]
                    break
            sig = "failed_load_changed_tree" if "configuration changed" in msg else ("failed_load_notified" if "hooks ran" in msg else "memory_error")
            # the enumerator keeps one process (and so one live tree) per shard: what fails may depend on the candidates
            # that came before, so the replayable unit is the shard, not the single candidate
            out["fails"].append({"case": {"mode": "enum", "shard": i, "nshards": vc.NCPU, "tier": tier, "last_candidate_hex": data.hex()[:2000]}, "sig": sig, "msg": msg})
        elif not got or pr.returncode != 0:
            raise vc.MachineryError("conf_enum shard %d ended with status %s and no failing input: %s" % (i, pr.returncode, e[-500:]))
    n = kinds.pop("cases", 0)
    out["evaluations"] += n
    out["nontrivial"] += kinds.get("rejected", 0)
    for k, v in kinds.items():
        out["classes"]["crashpoint_" + k] = v
    out["exhaustive_scope"] = ("every byte prefix, single-bit flip, single-byte deletion and insertion of each of 17 tokens (grammar tokens and a UTF-8 byte order mark) at every "
                               "position of %d corpus files (%d bytes) x 4 prior states: %d candidates%s" %
                               (len(paths), total, n, "" if ok else " (stopped at a failure)"))


def run_fuzz_input(binary, data, workdir):
    os.makedirs(workdir, exist_ok=True)
    f = os.path.join(workdir, "input.bin")
    with open(f, "wb") as fh:
        fh.write(data)
    env = dict(os.environ)
    env["ASAN_OPTIONS"] = "detect_leaks=0:abort_on_error=0"
    env["VERIF_INPROC_DIR"] = workdir
    p = subprocess.run([binary, f], stdout=subprocess.PIPE, stderr=subprocess.PIPE, env=env, timeout=120)
    if p.returncode != 0:
        txt = p.stderr.decode("latin-1")
        for ln in txt.splitlines():
            if "ERROR: AddressSanitizer" in ln or "runtime error" in ln or "ORACLE-FAIL" in ln:
                return ln.strip()[:300]
        return "exit %d" % p.returncode
    return None


def eval_fuzz_case(case, ctx):
    res = CaseResult()
    msg = run_fuzz_input(build_conf_fuzz(), bytes.fromhex(case["input_hex"]), os.path.join(ctx["root"], "fz"))
    if msg:
        sig = "failed_load_changed_tree" if "configuration changed" in msg else ("failed_load_notified" if "hooks ran" in msg else "memory_error")
        res.violations.append(V("C14", sig, "conf_read on a fuzz input (prior selector byte + candidate bytes): " + msg))
    return res


def extra_phase(pid, tier, seed):
    if pid != "C14":
        return None
    out = {"evaluations": 0, "nontrivial": 0, "fails": [], "classes": {}, "samples": [], "exhaustive_scope": None}
    binary = build_conf_fuzz()
    root = os.path.join(vc.BUILD, "tmp", "%d-conffuzz" % os.getpid())
    shutil.rmtree(root, ignore_errors=True)
    runs = 25000 if tier == "quick" else 1000000
    procs = []
    corp_files = corpus_files()
    for i in range(vc.NCPU):
        d = os.path.join(root, str(i))
        corp = os.path.join(d, "corpus")
        os.makedirs(corp)
        if i % 2 == 0:      # half of the jobs start from valid files, half from an empty corpus
            for j, txt in enumerate(corp_files):
                with open(os.path.join(corp, "seed%d" % j), "wb") as fh:
                    fh.write(bytes([j % 4]) + txt.encode("latin-1"))
        env = dict(os.environ)
        env["ASAN_OPTIONS"] = "detect_leaks=0:abort_on_error=0"
        env["VERIF_INPROC_DIR"] = d
        fs = (seed * 613 + i * 17 + 3) % 2 ** 31 or 1
        procs.append((d, vc.Proc([binary, "-runs=%d" % runs, "-max_len=700", "-seed=%d" % fs, "-artifact_prefix=" + d + "/",
                                  "-print_final_stats=1", "-timeout=30", corp], env=env)))
    for d, p in procs:
        err = p.communicate()[1].decode("latin-1")
        for ln in err.splitlines():
            if ln.startswith("stat::number_of_executed_units:"):
                out["evaluations"] += int(ln.split(":")[-1])
        for a in sorted(glob.glob(os.path.join(d, "crash-*"))):
            with open(a, "rb") as fh:
                data = fh.read()
            msg = "libFuzzer artifact"
            for ln in err.splitlines():
                if "ERROR: AddressSanitizer" in ln or "runtime error" in ln or "ORACLE-FAIL" in ln:
                    msg = ln.strip()[:300]
                    break
            sig = "failed_load_changed_tree" if "configuration changed" in msg else ("failed_load_notified" if "hooks ran" in msg else "memory_error")
            out["fails"].append({"case": {"mode": "fuzz", "input_hex": data.hex()}, "sig": sig, "msg": msg})
    out["classes"]["libfuzzer_executions"] = out["evaluations"]
    run_enum(tier, root, out)
    shutil.rmtree(root, ignore_errors=True)
    return out


_evaluate_c = evaluate


def evaluate(case, ctx):   # noqa: F811
    if isinstance(case, dict) and case.get("mode") == "fuzz":
        return eval_fuzz_case(case, ctx)
    if isinstance(case, dict) and case.get("mode") == "enum":
        return eval_enum_case(case, ctx)
    return _evaluate_c(case, ctx)
