"""Property registry: which engine decides which property, with what budget."""
import glob
import importlib
import json
import os
import sys

import hyprun
import vcommon as vc

COMMON_ASSUME = [
    "SUT = /repo working tree compiled with gcc -O1 -fsanitize=address,undefined -DIAUTHD_C_VERIF",
    "libevent, libc and the sanitizer runtimes are trusted",
]
PROTO_ASSUME = COMMON_ASSUME + [
    "lock-step attribution: output lines before the '-1 ? stats2' barrier block belong to the preceding input line",
    "line formats of the server side are taken from the code and tests/code-coverage.pl",
]

PROPS = {}


def hyp(pid, module, quick, thorough, rule, assume, workers=vc.NCPU, opts=None, needs=("daemon",), exhaustive=None):
    PROPS[pid] = {"kind": "hyp", "module": module, "n": {"quick": quick, "thorough": thorough},
                  "rule": rule, "assume": assume, "workers": workers, "opts": opts or {}, "needs": needs}


def native(pid, module):
    PROPS[pid] = {"kind": "native", "module": module}


hyp("C01", "eng_proto", 450, 4000,
    "Hypothesis-generated multi-client histories (id pool of 1-3 ids, re-announcement, D/T, late and stale events) run in "
    "lock-step against the real daemon; non-trivial = some instance received an event after it stopped being live, was "
    "re-announced while live, or a stale-serial reply was delivered; distinct = distinct case hash", PROTO_ASSUME)
hyp("C02", "eng_proto", 450, 4000,
    "histories x service tables x timeout-hook positions x +!/-! passwords; non-trivial = an accepted instance had a "
    "service owing an answer at some earlier step or had demanded +!", PROTO_ASSUME)
hyp("C03", "eng_proto", 450, 4000,
    "as C02, weighted to replies after timeouts, repeated OK <account>, +!/-! toggles; non-trivial = a verdict was issued "
    "in a step whose event was a reply, timeout firing or password, or after a timeout had expired", PROTO_ASSUME)
hyp("C05", "eng_proto", 450, 4000,
    "histories weighted to replies with texts/accounts from every service type; non-trivial = an instance received an "
    "awaited reply carrying text or an account", PROTO_ASSUME)
hyp("C06", "eng_proto", 450, 4000,
    "histories weighted to data-arrival orders with boundary-length fields, bare u, d vs N, H; non-trivial = at least one "
    "query line was observed for some instance", PROTO_ASSUME)
hyp("C10", "eng_proto", 450, 3000,
    "histories with id reuse, duplicate announcements, D/T at every stage; in-use counter compared with the model after "
    "every step, LeakSanitizer at exit; non-trivial = a live id was replaced and instances ended in >=3 different ways",
    PROTO_ASSUME)
hyp("C04", "eng_proto2", 500, 4000,
    "a generated history H and the same history with one stray reply/unlinked line inserted at a generated position (stale or future "
    "serial of the same id, unparsable tag, unknown / case-variant / not-awaiting service; every reply kind) are both run; outputs "
    "must be identical step for step and the stray step silent.  A line that the routing rule says is NOT stray is reclassified and "
    "not judged.  non-trivial = the stray line's id had a live instance at the insertion point and that instance saw >=1 later event",
    PROTO_ASSUME)
hyp("C07", "eng_proto2", 130, 1200,
    "k=2..5 client scripts on distinct ids are run alone and in a generated order-preserving interleaving; per-client projection of "
    "the output (lines naming the id or bearing its tag, serial masked) must be equal.  non-trivial = interleaving switches client "
    "more often than a concatenation would and >=2 clients had queries outstanding", PROTO_ASSUME)
hyp("C09", "eng_proto2", 350, 3000,
    "histories with announced addresses from the zero-run x digit-count abstraction, ports 0..65535, random logs sections and "
    "log-producing events (bad info request, garbage -1 lines, unknown reply words, reload of identical / broken file); every stdout "
    "line from the V banner on must match one production of the IAuth grammar; client messages must carry id, announced address "
    "(Python ipaddress as independent parser) and port.  non-trivial = IPv6 announcement with >=2 zero runs or a log-producing event",
    PROTO_ASSUME + ["Python's ipaddress module is the independent address parser"])
hyp("C11", "eng_proto2", 400, 3500,
    "rule tables (0-8 rules, names unique case-insensitively in mixed case, criteria subsets, glob patterns over * and ?, CIDR / "
    "wildcard / short-form masks with known (network, length)) x clients placed inside / just outside the masks; class field of D/R and "
    "the U line compared with a reference model.  non-trivial = a non-first rule decides or no rule matches a non-empty table",
    PROTO_ASSUME + ["glob patterns restricted to literals, * and ? (no [ or backslash) so libc fnmatch flags cannot matter"])
hyp("C08", "eng_proto3", 300, 2500,
    "byte streams built from well-formed histories plus hostile lines (parameters deleted one at a time, id-only / blank lines, lines "
    "up to 65000 bytes, >16 parameters, NUL / high bytes, CR variants, extreme and non-numeric ids), truncated at a generated byte and "
    "written whole and in generated read chunks: exit 0 at end of input, no ASan/UBSan memory report, no hang, identical output for "
    "both segmentations; and well-formed histories with spec-level junk lines inserted (unknown ids, unknown command letters, too few "
    "parameters, unroutable replies, blank lines): output equal to the junk-free run modulo '> :ircd sent garbage' notices.  "
    "non-trivial = every case (each contains hostile or junk lines next to live client traffic); distinct by case hash",
    PROTO_ASSUME + ["batch mode: no barrier lines; LeakSanitizer off here (leaks are judged by C10)"])
hyp("C17", "eng_proto3", 180, 1500,
    "(old, new) service and rule tables related by 1-3 generated edits (add / remove / protocol changed in place / rule added, removed, "
    "field changed in place, criterion added or removed / no-op; several edits = several reloads, which gives remove-then-add); daemon "
    "A starts on old, optionally serves clients that leave queries outstanding, is reloaded with SIGUSR1 (completion observed through "
    "inotify + barrier) and then serves probe clients that touch every service and rule; daemon B starts fresh on new and serves the "
    "same probes; per-step outputs (serials masked, unconfigured '-' entries ignored, order of lines within a step ignored) and the "
    "'-1 ? config' report must be equal.  non-trivial = at least one real edit and probe output observed", PROTO_ASSUME)
hyp("C18", "eng_log", 220, 2500,
    "sequences of 1-4 logs sections over facilities {core, config, f1, f2, *, an unregistered name, case variants}, severity "
    "expressions from the grammar (names in any case, comma lists, <, <=, =, >=, >, *) and deliberately malformed ones, single and "
    "list destinations over 4 files; after every load one uniquely tokenised message per (facility, severity) pair (30 per load, "
    "fatal ones in forked children) is emitted through the real logger and the files are read back: token in file iff the current "
    "section maps (facility or *, severity) to it; every written line complete and attributed.  non-trivial = a range operator, "
    ">=2 destinations and a reload that re-routes", COMMON_ASSUME + ["src/log.c + config.c linked unmodified into harness/logh.c"], needs=())
hyp("C20", "eng_mod", 150, 1200,
    "the real daemon is run with -k on a generated modules ( ... ) list; six copies of one stub module read the dependency graph "
    "from the environment, call module_depends() accordingly and log constructor begin/end, post-init and destructor events.  "
    "Exhaustive: every digraph (self-loops included) on <=3 modules x every ordered non-empty list (thorough: + every DAG on 4 labelled "
    "modules); random: Hypothesis DAGs / cyclic graphs / missing modules on 4-6 modules.  Oracle: DAG => exit 0, loaded set = "
    "reachable set, exactly one of each event per module, dependency order of constructor ends and post-inits, reverse order of "
    "destructors; cycle or missing module => non-zero exit and no 'appears valid'.  non-trivial = node of in-degree >=2, chain of "
    "length >=3, or a graph that must be rejected", COMMON_ASSUME + ["stub modules are copies of harness/stubmod.c"], needs=("daemon",))
CONF_ASSUME = COMMON_ASSUME + ["src/config.c, set.c, common.c, bitset.c linked unmodified into harness/confh.c; log_message is a capturing stub",
                              "LeakSanitizer off: parse-error paths leak the token being parsed (observation, not a memory error)"]
hyp("C14", "eng_conf", 500, 5000,
    "candidate bytes (every kind of damage to valid files: prefix at a generated byte, single bit flip, token insertion, deletion, "
    "random bytes, grammar-token soup, and undamaged files) loaded on top of a generated prior state (random subset of 13 registered "
    "nodes of all four kinds / string subtypes with hooks, 0-2 earlier valid loads); oracle: no ASan/UBSan memory report, load "
    "returns, and on a non-zero return the canonical dump of the live tree is byte-identical and the hook log empty.  non-trivial = "
    "the candidate was rejected after at least one complete entry had been parsed", CONF_ASSUME, needs=())
hyp("C15", "eng_conf", 500, 5000,
    "sequences of 1-5 valid files over a universe of names x kinds (incl. nested object, case variants, same name with different kinds) "
    "x a random subset of 13 registrations each placed before a generated load or after the last; oracle: model (registered = file "
    "value or default, unregistered = exactly the last file), identical reload changes nothing and notifies nobody, effective value "
    "change => that node's hook ran, membership change => object hook ran, no memory error.  non-trivial = >=2 loads with >=3 node kinds",
    CONF_ASSUME, needs=())
hyp("C16", "eng_conf", 600, 6000,
    "trees (depth <=3, all byte values except NUL in strings and names, lists of 0-5 items, host/service pairs, repeated keys, repeated "
    "objects) rendered with independent layout choices (bare / quoted, every documented escape and unknown escapes, paren / comma "
    "lists, ';' / newline terminators, string value directly followed by '}', comma list followed by a single terminator, C and C++ "
    "comments, blanks); oracle: dump of the parsed tree equals the generating tree.  Typed settings: value written in generated "
    "notation equals value delivered; an unparsable sibling leaves it in force.  non-trivial = rendering with >=3 layout features and "
    "an escape or adjacency case, or a typed case", CONF_ASSUME, needs=())


# ---------------------------------------------------------------------------

def regress_files(pid):
    return sorted(glob.glob(os.path.join(vc.VERIF, "regress", pid, "*.json")))


def ensure_built(needs):
    for n in needs:
        if n == "daemon":
            vc.build_daemon()


def run(pid, tier, seed):
    p = PROPS[pid]
    if p["kind"] == "native":
        mod = importlib.import_module(p["module"])
        return mod.run(pid, tier, seed)
    return run_hyp(pid, tier, seed)


def run_hyp(pid, tier, seed):
    p = PROPS[pid]
    t = vc.Timer()
    ensure_built(p["needs"])
    known = vc.known_findings(pid)
    known_sigs = [k["signature"] for k in known]
    violations = []
    regress_run = 0
    # 1. regression tier: stored inputs, no library involved
    for f in regress_files(pid):
        with open(f) as fh:
            case = json.load(fh)
        regress_run += 1
        seen = hyprun.confirm(p["module"], pid, case, tier, times=1, known_sigs=known_sigs)
        if seen:
            seen = hyprun.confirm(p["module"], pid, case, tier, times=3, known_sigs=known_sigs)
        if seen:
            violations.append((f, seen))
    # 2. known findings still there?
    for k in known:
        rp = os.path.join(vc.VERIF, k["replay"]) if k.get("replay") else None
        still = None
        if rp and os.path.exists(rp):
            with open(rp) as fh:
                case = json.load(fh)
            seen = hyprun.confirm(p["module"], pid, case, tier, times=1, known_sigs=[])
            still = k["signature"] in seen
        if still is False:
            print("NOTE: known finding %s no longer reproduces from %s" % (k["signature"], k.get("replay")))
        else:
            print("KNOWN-FINDING: property=%s %s" % (pid, k["what"]))
    # 3. search
    n = p["n"][tier]
    opts = dict(p["opts"])
    m = hyprun.search(p["module"], pid, tier, seed, n, p["workers"], opts, known_sigs)
    if m["errors"] and not m["fails"] and m["evaluations"] == 0:
        raise vc.MachineryError("all workers failed:\n" + m["errors"][0])
    for e in m["errors"][:2]:
        sys.stderr.write("WORKER-ERROR (not a verdict):\n%s\n" % e)
    extra = None
    emod = importlib.import_module(p["module"])
    if hasattr(emod, "extra_phase"):
        extra = emod.extra_phase(pid, tier, seed)
    if extra:
        m["evaluations"] += extra["evaluations"]
        m["fails"].extend(f for f in extra["fails"] if f["sig"] not in known_sigs)
        for k, v in extra["classes"].items():
            m["classes"]["enum_" + k] = v
        m["samples"].extend(extra["samples"][:2])
    flaky = 0
    seen_sigs = set()
    for f in m["fails"]:
        if f["sig"] in seen_sigs:
            continue
        seen = hyprun.confirm(p["module"], pid, f["case"], tier, times=3, known_sigs=known_sigs)
        if not seen:
            flaky += 1
            print("NOTE: a failing case did not reproduce 3x and is counted as inconclusive: %s" % f["msg"])
            continue
        seen_sigs.add(f["sig"])
        case = dict(f["case"])
        case["_violation"] = {"property": pid, "signatures": seen}
        path = vc.save_replay(pid, case)
        violations.append((path, seen))
    for k, c in sorted(m["other"].items()):
        print("NOTE: %d case(s) showed a violation of another property (%s); see that property's check" % (c, k))
    for k, c in sorted(m["notes"].items()):
        print("NOTE: %s (%d cases)" % (k, c))
    for path, seen in violations:
        for sig, msg in seen.items():
            print("  %s: %s" % (sig, msg))
        vc.report_violation(pid, os.path.relpath(path, vc.VERIF))
    cov = {
        "evaluations": m["evaluations"] + regress_run,
        "distinct_nontrivial": len(m["nontrivial"]),
        "rule": p["rule"],
        "samples": m["samples"][:4],
        "classes": dict(sorted(m["classes"].items())),
        "excluded_known": m["excluded_known"],
        "inconclusive": dict(m["inconclusive"], flaky_failures=flaky),
        "regression_inputs_replayed": regress_run,
        "other_property_violations_seen": m["other"],
        "workers": p["workers"], "examples_per_worker": n,
        "worker_errors": len(m["errors"]),
    }
    if extra:
        cov["distinct_nontrivial"] += extra["nontrivial"]
        cov["extra_phase_cases"] = extra["evaluations"]
        if extra.get("exhaustive_scope"):
            cov["exhaustive"] = not violations
            cov["exhaustive_scope"] = extra["exhaustive_scope"] + " (the Hypothesis part is sampling)"
    vc.write_evidence(pid, tier, seed, "exploration", cov, t.s(), len(violations), p["assume"] + vc.tool_versions())
    print("%s %s: %d cases, %d distinct non-trivial, %d violation(s), %.1fs" % (
        pid, tier, cov["evaluations"], cov["distinct_nontrivial"], len(violations), t.s()))
    return 1 if violations else 0


def replay(pid, path):
    p = PROPS[pid]
    if p["kind"] == "native":
        mod = importlib.import_module(p["module"])
        return mod.replay(pid, path)
    ensure_built(p["needs"])
    with open(path) as fh:
        case = json.load(fh)
    known_sigs = [k["signature"] for k in vc.known_findings(pid)]
    seen = hyprun.confirm(p["module"], pid, case, "quick", times=1, known_sigs=known_sigs)
    if seen:
        for sig, msg in seen.items():
            print("  %s: %s" % (sig, msg))
        vc.report_violation(pid, path)
        return 1
    print("replay %s: property %s held" % (path, pid))
    return 0


native("C19", "eng_set")
native("C12", "eng_addr")
native("C13", "eng_addr")
