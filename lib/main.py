"""./check <ID> quick|thorough | --replay <file>"""
import json
import os
import sys

sys.path.insert(0, os.path.dirname(os.path.abspath(__file__)))

import vcommon as vc  # noqa: E402
import registry  # noqa: E402


def main(argv):
    if len(argv) < 3:
        sys.stderr.write(__doc__ + "\n")
        return 2
    pid = argv[1]
    if pid not in registry.PROPS:
        vc.die("unknown property %s" % pid)
    mode = argv[2]
    os.chdir(vc.VERIF)
    try:
        if mode == "--replay":
            return registry.replay(pid, argv[3])
        if mode not in ("quick", "thorough"):
            vc.die("tier must be quick or thorough")
        os.environ.setdefault("VERIF_TIER", mode)
        return registry.run(pid, mode, vc.seed_from_env())
    except vc.MachineryError as e:
        vc.die(str(e))
    finally:
        vc.cleanup_case_root()


if __name__ == "__main__":
    sys.exit(main(sys.argv))
