"""Engine E-mod (C20): the real daemon run with -k on generated module lists;
six copies of one stub module read the dependency graph from the environment
and append constructor / post-init / destructor events to an event log."""
import itertools
import multiprocessing as mp
import os
import shutil
import subprocess

from hypothesis import strategies as st

import daemon as dm
import proto
import vcommon as vc
from hyprun import CaseResult

# the first three names are prefixes of each other with one sorting in between (module lists are kept by name)
NAMES = ["m0", "m0a", "m0x", "m1", "m2", "m3", "m4", "m5"]


def V(sig, msg):
    return proto.Violation("C20", None, sig, msg)


def build():
    src = vc.harness_path("stubmod.c")

    def b(out):
        # variants: full / no constructor / no post-init / no destructor (all three entry points are optional)
        for var, defs in VARIANTS.items():
            vc._run(["gcc"] + vc.SAN + ["-fPIC", "-shared", "-w"] + defs + [src, "-ldl", "-o", os.path.join(out, "stub-%s.so" % var)])
    return vc.cached_build("stubmods", [src], (vc.SAN, sorted(VARIANTS)), b)


VARIANTS = {"full": [], "noctor": ["-DNO_CTOR"], "nopost": ["-DNO_POSTINIT"], "nodtor": ["-DNO_DTOR"],
            # "uses" calls a function that "provides" exports: the symbol can only be bound after the dependency is loaded
            "uses": ["-DCALLS_DEP"], "provides": ["-DPROVIDES_FN"]}


def install_modules(stubdir, moddir, variants):
    """Per-case module directory: mN.so is a copy of the chosen variant (dlopen treats
    distinct files as distinct libraries)."""
    os.makedirs(moddir, exist_ok=True)
    for n in NAMES:
        shutil.copy(os.path.join(stubdir, "stub-%s.so" % variants.get(n, "full")), os.path.join(moddir, n + ".so"))


def setup():
    build()
    vc.build_daemon()


def reachable(graph, roots):
    seen = []
    stack = list(roots)
    while stack:
        n = stack.pop()
        if n in seen:
            continue
        seen.append(n)
        stack.extend(graph.get(n, []))
    return set(seen)


def has_cycle(graph, nodes):
    color = {}

    def dfs(n):
        color[n] = 1
        for m in graph.get(n, []):
            if color.get(m) == 1:
                return True
            if color.get(m) is None and dfs(m):
                return True
        color[n] = 2
        return False
    return any(color.get(n) is None and dfs(n) for n in sorted(nodes))


def longest_chain(graph, nodes):
    memo = {}

    def d(n):
        if n not in memo:
            memo[n] = 1 + max([d(m) for m in graph.get(n, [])] or [0])
        return memo[n]
    return max([d(n) for n in nodes] or [0])


def run_case(case, root):
    """case: {"graph": {name: [deps]}, "list": [names], "missing": name|None} -> CaseResult"""
    res = CaseResult()
    stubdir = build()
    wd = os.path.join(root, "c")
    shutil.rmtree(wd, ignore_errors=True)
    os.makedirs(wd)
    variants = dict(case.get("variants") or {})
    moddir = os.path.join(wd, "mods")
    install_modules(stubdir, moddir, variants)
    graph = {k: list(v) for k, v in case["graph"].items()}
    anti = {k: list(v) for k, v in (case.get("anti") or {}).items()}     # provider -> modules it is a back-end for
    backend = list(case.get("backend") or [])                            # back-ends of the core itself
    for n, v in variants.items():
        if v == "noctor":
            graph.pop(n, None)        # a module without a constructor cannot declare dependencies
            anti.pop(n, None)
            if n in backend:
                backend.remove(n)
    lst = list(case["list"])
    conf = "core {\n  library_path ( %s );\n  modules ( %s );\n};\nlogs { };\n" % (dm.quote(moddir), ", ".join(lst))
    cp = os.path.join(wd, "m.conf")
    with open(cp, "w") as fh:
        fh.write(conf)
    evlog = os.path.join(wd, "events.log")
    env = dm.san_env(detect_leaks=False)
    # "respell": dependencies [a, b] that a declares with b's name in other letter case (module names are compared
    # without regard to case, src/module.c + set_compare_charp); only the text handed to module_depends() changes,
    # the oracle keeps speaking about b
    resp = {(a, b) for a, b in (case.get("respell") or [])}
    env["VERIF_GRAPH"] = ";".join("%s:%s" % (k, ",".join((d.upper() if (k, d) in resp else d) for d in v)) for k, v in sorted(graph.items()) if v)
    env["VERIF_EVLOG"] = evlog
    env["VERIF_ANTI"] = ";".join("%s:%s" % (k, ",".join(v)) for k, v in sorted(anti.items()) if v)
    env["VERIF_BACKEND"] = ("core:" + ",".join(backend)) if backend else ""
    # what loading a module pulls in (its dependencies and the modules it is a back-end for) ...
    pulls = {n: list(graph.get(n, [])) + list(anti.get(n, [])) for n in set(graph) | set(anti)}
    # ... and the dependency relation the order clauses speak about: README "module_antidepends: the currently
    # loading module is a back-end provider for some other module, and must be unloaded after it"; module.h: "should
    # be treated as a dependency of that module"
    eff = {k: list(v) for k, v in graph.items()}
    loaded_set = reachable(pulls, lst)
    for prov, targets in anti.items():
        if prov not in loaded_set:
            continue                  # a provider that is never loaded never announces itself
        for t in targets:
            if prov not in eff.setdefault(t, []):
                eff[t].append(prov)
    binary = os.path.join(vc.build_daemon(), "iauthd-c")
    try:
        p = subprocess.run([binary, "-k", "-n", "-f", cp], stdin=subprocess.DEVNULL, stdout=subprocess.PIPE, stderr=subprocess.PIPE,
                           cwd=wd, env=env, timeout=60)
    except subprocess.TimeoutExpired:
        res.violations.append(V("hang", "start-up did not finish for graph %r list %r" % (graph, lst)))
        return res
    out = p.stdout.decode("latin-1")
    err = p.stderr.decode("latin-1")
    mem, _, _ = dm.classify_stderr(err)
    events = []
    if os.path.exists(evlog):
        with open(evlog) as fh:
            events = [ln.split() for ln in fh.read().splitlines() if ln.strip()]
    missing = case.get("missing")
    nodes = reachable(pulls, lst)
    cyc = has_cycle(eff, nodes)
    bad = cyc or (missing is not None and missing in nodes)
    valid_line = "appears valid" in out
    desc = "graph %s%s%s, modules ( %s )" % (env["VERIF_GRAPH"] or "-", (" back-end providers " + env["VERIF_ANTI"]) if env["VERIF_ANTI"] else "",
                                             (" core back-ends " + ",".join(backend)) if backend else "", ", ".join(lst))
    if mem:
        res.violations.append(V("memory_error", "%s: %s" % (desc, mem[0])))
        return res
    if bad:
        res.classes.add("cyclic" if cyc else "missing_module")
        if p.returncode == 0 or valid_line:
            res.violations.append(V("bad_graph_accepted", "%s: a %s did not abort start-up (exit %d, 'appears valid' %s)"
                                    % (desc, "dependency cycle" if cyc else "missing module", p.returncode, valid_line)))
        res.nontrivial = True
        return res
    res.classes.add("dag")
    if p.returncode != 0 or not valid_line:
        sig = "dag_rejected"
        indeg = {}
        for a in nodes:
            for b in eff.get(a, []):
                indeg[b] = indeg.get(b, 0) + 1
        if any(v >= 2 for v in indeg.values()):
            sig = "diamond_reported_as_loop"
        res.violations.append(V(sig, "%s: acyclic graph but start-up failed (exit %d): %s" % (desc, p.returncode, (out + err).strip()[-160:])))
        return res
    pos = {}
    for i, (what, name) in enumerate(events):
        pos.setdefault((what, name), []).append(i)
    loaded = {name for (what, name) in pos}
    silent = {n for n in nodes if variants.get(n) == "noctor" and not pos.get(("post_init", n)) and not pos.get(("dtor", n))}
    if loaded | silent != nodes:
        res.violations.append(V("wrong_module_set", "%s: loaded %s, expected %s" % (desc, sorted(loaded), sorted(nodes))))
        return res
    def has(n, what):
        v = variants.get(n, "full")
        return not ((v == "noctor" and what.startswith("ctor")) or (v == "nopost" and what == "post_init") or (v == "nodtor" and what == "dtor"))
    for n in nodes:
        for what in ("ctor_begin", "ctor_end", "post_init", "dtor"):
            c = len(pos.get((what, n), []))
            if c != (1 if has(n, what) else 0):
                res.violations.append(V("event_count", "%s (variants %s): %s of %s ran %d times" % (desc, variants, what, n, c)))
                return res
    # A provider announces itself from inside its own constructor and thereby loads the module it serves.  If that
    # module (or something it pulls in) declares a dependency on the provider - or on anything whose constructor is
    # still running further up the stack - that dependency cannot be "fully constructed first" whatever the loader
    # does: the load order, not the dependency graph, has a cycle.  The construction-order clause is not judged then.
    pull_cycle = has_cycle(pulls, nodes)
    if pull_cycle:
        res.classes.add("load_order_cycle_ctor_clause_not_judged")
    for a in nodes:
        for b in eff.get(a, []):
            # construction order is promised for declared dependencies only: a back-end provider announces itself
            # from inside its own constructor, when the module it serves may long be constructed
            if not pull_cycle and b in graph.get(a, []) and has(a, "ctor_end") and has(b, "ctor_end") and not pos[("ctor_end", b)][0] < pos[("ctor_end", a)][0]:
                res.violations.append(V("ctor_order", "%s: %s depends on %s but finished constructing first" % (desc, a, b)))
            if has(a, "post_init") and has(b, "post_init") and not pos[("post_init", b)][0] < pos[("post_init", a)][0]:
                res.violations.append(V("post_init_order", "%s: post-init of %s ran before that of its dependency %s" % (desc, a, b)))
            if has(a, "dtor") and has(b, "dtor") and not pos[("dtor", a)][0] < pos[("dtor", b)][0]:
                res.violations.append(V("dtor_order", "%s: destructor of %s ran after that of its dependency %s" % (desc, a, b)))
    if variants:
        res.classes.add("optional_entry_point_missing")
    if any(anti.get(n) for n in nodes):
        res.classes.add("backend_provider_edge")
    if any(n in backend for n in nodes):
        res.classes.add("core_backend")
    indeg = {}
    for a in nodes:
        for b in eff.get(a, []):
            indeg[b] = indeg.get(b, 0) + 1
    if any(v >= 2 for v in indeg.values()):
        res.classes.add("diamond")
        res.nontrivial = True
    if longest_chain(eff, nodes) >= 3:
        res.classes.add("chain3")
        res.nontrivial = True
    return res


# ---------------------------------------------------------------------------
# Hypothesis part: random graphs on 5-6 nodes

@st.composite
def graph_s(draw, pid, tier, opts=None):
    n = draw(st.integers(4, 6))
    names = draw(st.permutations(NAMES))[:n]
    graph = {}
    cyclic = draw(st.integers(0, 4)) == 0
    for i, a in enumerate(names):
        cands = names if cyclic else names[i + 1:]     # edges only "forward" in a random order => DAG
        deps = draw(st.lists(st.sampled_from(cands), max_size=3, unique=True)) if cands else []
        if deps:
            graph[a] = deps
    k = draw(st.integers(1, n))
    lst = draw(st.permutations(names))[:k]
    missing = None
    if draw(st.integers(0, 9)) == 0:
        missing = "mX"
        if draw(st.booleans()):
            graph.setdefault(draw(st.sampled_from(names)), []).append("mX")
        else:
            lst = list(lst) + ["mX"]
    variants = {}
    if draw(st.integers(0, 2)) == 0:
        for n in draw(st.lists(st.sampled_from(names), min_size=1, max_size=2, unique=True)):
            variants[n] = draw(st.sampled_from(["noctor", "nopost", "nopost", "nodtor"]))
    want_call = not variants and not cyclic and missing is None and draw(st.integers(0, 3)) == 0
    case = {"graph": graph, "list": lst, "missing": missing, "variants": variants}
    k = draw(st.integers(0, 3))
    if k == 0:
        # some dependencies are declared from the other side: the provider calls module_antidepends(user)
        anti = {}
        for a in list(graph):
            for b in list(graph[a]):
                if b != "mX" and draw(st.integers(0, 2)) == 0:
                    graph[a].remove(b)
                    anti.setdefault(b, []).append(a)
            if not graph[a]:
                del graph[a]
        case["anti"] = anti
    if k in (0, 1) and draw(st.booleans()):
        case["backend"] = draw(st.lists(st.sampled_from(names), min_size=1, max_size=3))     # a name listed twice calls module_is_backend() twice
    if not cyclic and missing is None and not case.get("anti") and draw(st.integers(0, 3)) == 0:
        # a dependency on the module listed first (constructed before anything that depends on it, since the graph
        # is acyclic) named in capitals by the dependent: it must be found under the daemon's own name comparison
        resp = [[a, lst[0]] for a in graph if lst[0] in graph[a]]
        if resp:
            case["respell"] = resp
    if want_call:
        edges = [(a, b) for a in graph for b in graph[a]]      # dependencies declared by the dependent itself
        if edges:
            a, b = draw(st.sampled_from(edges))
            case["variants"] = {a: "uses", b: "provides"}       # a calls a function exported by its dependency b
    return case


def make_context(pid, tier, widx, opts):
    root = os.path.join(vc.BUILD, "tmp", "%d-%d" % (os.getpid(), widx))
    os.makedirs(root, exist_ok=True)
    return {"root": root, "pid": pid}


def close_context(ctx):
    shutil.rmtree(ctx["root"], ignore_errors=True)


def strategy(pid, tier, opts):
    return graph_s(pid, tier, opts)


def evaluate(case, ctx):
    return run_case(case, ctx["root"])


# ---------------------------------------------------------------------------
# exhaustive part: all digraphs on <=3 nodes (self loops included), every ordered
# non-empty sub-list; thorough: all DAGs on 4 nodes under every labelling, listed
# from every single root and in two full orders

def enum_cases(tier):
    for n in (1, 2, 3):
        names = NAMES[:n]
        pairs = [(a, b) for a in names for b in names]
        for mask in range(1 << len(pairs)):
            graph = {}
            for i, (a, b) in enumerate(pairs):
                if mask >> i & 1:
                    graph.setdefault(a, []).append(b)
            for k in range(1, n + 1):
                for lst in itertools.permutations(names, k):
                    yield {"graph": graph, "list": list(lst), "missing": None}
            if n == 3 and not has_cycle(graph, names):
                # every acyclic 3-module graph again with one dependent calling a function its dependency exports
                for a in graph:
                    for b in graph[a]:
                        for lst in ([a], names, names[::-1]):
                            yield {"graph": graph, "list": list(lst), "missing": None, "variants": {a: "uses", b: "provides"}}
                # every acyclic 3-module graph again with one module lacking one optional entry point
                for who in names:
                    for var in ("noctor", "nopost", "nodtor"):
                        for lst in ([names[0]], names, names[::-1]):
                            yield {"graph": graph, "list": list(lst), "missing": None, "variants": {who: var}}
    # the same small graphs with every edge declared either by the dependent (module_depends) or by the provider
    # (module_antidepends): all such mixed graphs on 2 modules (self-loops included) and on 3 modules (no self-loops)
    for n in (2, 3):
        names = NAMES[:n]
        pairs = [(a, b) for a in names for b in names if n == 2 or a != b]
        for code in itertools.product((0, 1, 2), repeat=len(pairs)):
            if 2 not in code:
                continue
            graph, anti = {}, {}
            for (a, b), c in zip(pairs, code):
                if c == 1:
                    graph.setdefault(a, []).append(b)
                elif c == 2:
                    anti.setdefault(b, []).append(a)       # b announces itself as a's back-end: a depends on b
            for k in range(1, n + 1):
                for lst in itertools.permutations(names, k):
                    yield {"graph": graph, "anti": anti, "list": list(lst), "missing": None}
    # back-ends of the core itself (module_is_backend): every acyclic graph on 3 modules x every non-empty set of back-ends
    names = NAMES[:3]
    pairs = [(a, b) for a in names for b in names if a != b]
    for mask in range(1 << len(pairs)):
        graph = {}
        for i, (a, b) in enumerate(pairs):
            if mask >> i & 1:
                graph.setdefault(a, []).append(b)
        if has_cycle(graph, names):
            continue
        for r in (1, 2, 3):
            for be in itertools.combinations(names, r):
                for lst in ([names[0]], [names[2]], names, names[::-1]):
                    yield {"graph": graph, "backend": list(be), "list": list(lst), "missing": None}
                    if r == 1:
                        yield {"graph": graph, "backend": list(be) * 2, "list": list(lst), "missing": None}    # module_is_backend() called twice
        # dependencies on the module listed first, declared with its name in capitals (see "respell" in run_case)
        for lst in itertools.permutations(names):
            resp = [[a, lst[0]] for a in graph if lst[0] in graph[a]]
            if resp:
                yield {"graph": graph, "list": list(lst), "missing": None, "respell": resp}
    if tier == "quick":
        # every DAG on 4 labelled modules, listed in full in both orders (the thorough tier adds every single root)
        names = NAMES[:4]
        pairs = [(a, b) for a in names for b in names if a != b]
        for mask in range(1 << len(pairs)):
            graph = {}
            for i, (a, b) in enumerate(pairs):
                if mask >> i & 1:
                    graph.setdefault(a, []).append(b)
            if has_cycle(graph, names):
                continue
            for lst in (names, names[::-1]):
                yield {"graph": graph, "list": list(lst), "missing": None}
    if tier == "thorough":
        names = NAMES[:4]
        pairs = [(a, b) for a in names for b in names if a != b]
        for mask in range(1 << len(pairs)):
            graph = {}
            for i, (a, b) in enumerate(pairs):
                if mask >> i & 1:
                    graph.setdefault(a, []).append(b)
            if has_cycle(graph, names):
                continue
            for lst in [[x] for x in names] + [names, names[::-1]]:
                yield {"graph": graph, "list": list(lst), "missing": None}


def _enum_worker(args):
    tier, widx, nw = args
    root = os.path.join(vc.BUILD, "tmp", "%d-e%d" % (os.getpid(), widx))
    os.makedirs(root, exist_ok=True)
    n = nt = 0
    fails = []
    classes = {}
    samples = []
    try:
        for i, case in enumerate(enum_cases(tier)):
            if i % nw != widx:
                continue
            r = run_case(case, root)
            n += 1
            nt += 1 if r.nontrivial else 0
            for c in r.classes:
                classes[c] = classes.get(c, 0) + 1
            if r.nontrivial and len(samples) < 2 and i % 97 == 0:
                samples.append(case)
            if r.violations and len(fails) < 3:
                fails.append({"case": case, "sig": r.violations[0].sig, "msg": r.violations[0].msg})
    finally:
        shutil.rmtree(root, ignore_errors=True)
    return n, nt, fails, classes, samples


def extra_phase(pid, tier, seed):
    """-> dict(evaluations, nontrivial, fails, classes, samples, exhaustive_scope)"""
    nw = vc.NCPU
    with mp.get_context("fork").Pool(nw) as pool:
        rs = pool.map(_enum_worker, [(tier, w, nw) for w in range(nw)])
    out = {"evaluations": 0, "nontrivial": 0, "fails": [], "classes": {}, "samples": [],
           "exhaustive_scope": "every digraph (self-loops included) on 1-3 stub modules x every ordered non-empty module list; every graph on 2 modules "
                               "(self-loops included) and on 3 modules (no self-loops) whose edges are each declared by module_depends or by module_antidepends "
                               "x every ordered non-empty list; every acyclic 3-module graph x every non-empty set of core back-ends (module_is_backend) x 4 lists"
                               + ("; every DAG on 4 labelled modules listed from each single root and in two full orders" if tier == "thorough" else "; every DAG on 4 labelled modules listed in two full orders")}
    for n, nt, fails, classes, samples in rs:
        out["evaluations"] += n
        out["nontrivial"] += nt
        out["fails"].extend(fails)
        out["samples"].extend(samples)
        for k, v in classes.items():
            out["classes"][k] = out["classes"].get(k, 0) + v
    return out
