"""Engine E-set (C19): rapidcheck operation sequences against std::map plus an
exhaustive breadth-first exploration of all reachable tree shapes over 7 keys."""
import json
import os
import shutil
import subprocess
import time

import vcommon as vc

PID = "C19"
CXX = ["g++", "-std=gnu++17", "-g", "-O1", "-fsanitize=address,undefined", "-fno-sanitize-recover=undefined"]


def build():
    hsrc = vc.harness_path("set_h.cpp")
    seth = os.path.join(vc.REPO, "src", "set.h")

    def b_obj(out):
        vc._run(CXX + vc.inc_flags() + ["-DHAVE_CONFIG_H", "-c", hsrc, "-o", os.path.join(out, "set_h.o")])
    obj = vc.cached_build("seth-obj", [hsrc, seth], CXX, b_obj)

    def b_bin(out):
        vc._run(["gcc"] + vc.SAN + ["-fno-sanitize-recover=undefined"] + vc.DEFS + vc.inc_flags() + ["-w", "-c", os.path.join(vc.REPO, "src", "set.c"), "-o", os.path.join(out, "set.o")])
        vc._run(["g++", "-fsanitize=address,undefined", os.path.join(obj, "set_h.o"), os.path.join(out, "set.o"), "-lrapidcheck", "-levent", "-lm", "-o", os.path.join(out, "set_h")])
    return os.path.join(vc.cached_build("seth-bin", vc.repo_sources() + [hsrc], CXX, b_bin), "set_h")


def setup():
    build()


def last_json(text):
    for ln in reversed(text.strip().splitlines()):
        if ln.startswith("{"):
            try:
                return json.loads(ln)
            except ValueError:
                return None
    return None


def confirm(binary, path, times=3):
    msg = None
    for _ in range(times):
        p = subprocess.run([binary, "replay", path], stdout=subprocess.PIPE, stderr=subprocess.PIPE)
        out = p.stdout.decode(errors="replace") + p.stderr.decode(errors="replace")
        if p.returncode == 0:
            return None
        m = [l for l in out.splitlines() if l.startswith("FAIL:") or "runtime error" in l or "AddressSanitizer" in l]
        msg = m[0] if m else "exit %d" % p.returncode
    return msg


def run(pid, tier, seed):
    t = vc.Timer()
    binary = build()
    root = vc.case_root()
    ncases = 12000 if tier == "quick" else 150000
    maxsize = 200
    nkeys = 7
    violations = []
    regress = 0
    for f in sorted(os.listdir(os.path.join(vc.VERIF, "regress", PID))) if os.path.isdir(os.path.join(vc.VERIF, "regress", PID)) else []:
        regress += 1
        path = os.path.join(vc.VERIF, "regress", PID, f)
        msg = confirm(binary, path, 1)
        if msg and confirm(binary, path, 3):
            violations.append((path, msg))
    procs = []
    for w in range(vc.NCPU - 1):
        env = dict(os.environ)
        env["RC_PARAMS"] = "seed=%d max_success=%d max_size=%d" % ((seed * 7919 + w * 104729 + 1) % (2 ** 31), ncases, maxsize)
        fp = os.path.join(root, "fail-%d.txt" % w)
        procs.append((fp, vc.Proc([binary, "rc", "0", "0", fp], env=env)))
    bfs_fp = os.path.join(root, "fail-bfs.txt")
    procs.append((bfs_fp, vc.Proc([binary, "bfs", str(nkeys), bfs_fp])))
    procs.append((os.path.join(root, "fail-spine.txt"), vc.Proc([binary, "spine", os.path.join(root, "fail-spine.txt")])))
    tot = {"cases": 0, "ops": 0, "nontrivial": 0, "audits": 0, "replaced": 0, "absent_lookup": 0, "removes_hit": 0,
           "lower_calls": 0, "clears": 0, "recycled": 0}
    per_cmp = {"int": 0, "charp": 0, "voidp": 0, "ptr": 0}
    samples = []
    bfs_states = 0
    bfs_ok = False
    crashed = 0
    for fp, p in procs:
        out, err = p.communicate()
        j = last_json(out.decode(errors="replace"))
        if j is None:
            crashed += 1
            txt = (out + err).decode(errors="replace")
            # a sanitizer abort inside the SUT: no shrunk case; report the raw log as the replay
            rp = os.path.join(vc.REPLAYS, PID)
            os.makedirs(rp, exist_ok=True)
            path = os.path.join(rp, "crash-%d.log" % len(violations))
            with open(path, "w") as fh:
                fh.write(txt[-20000:])
            violations.append((path, "harness process died (sanitizer abort?): " + (txt.strip().splitlines() or ["?"])[-1][:200]))
            continue
        for k in tot:
            tot[k] += j.get(k, 0)
        for k in per_cmp:
            per_cmp[k] += j["per_cmp"].get(k, 0)
        if j["mode"] == "bfs":
            bfs_states = j["states"]
            bfs_ok = j["ok"]
        samples.extend(j.get("samples", [])[:1])
        if not j["ok"] and os.path.exists(fp):
            rp = os.path.join(vc.REPLAYS, PID)
            os.makedirs(rp, exist_ok=True)
            with open(fp, "rb") as fh:
                body = fh.read()          # keys may contain any byte
            import hashlib
            path = os.path.join(rp, hashlib.sha256(body).hexdigest()[:12] + ".txt")
            shutil.copy(fp, path)
            msg = confirm(binary, path, 3)
            if msg:
                violations.append((path, msg))
            else:
                print("NOTE: a failing case did not reproduce 3x (inconclusive)")
    seen = set()
    nviol = 0
    for path, msg in violations:
        key = msg.split("#")[0][:60]
        if key in seen:
            continue
        seen.add(key)
        nviol += 1
        print("  " + msg)
        vc.report_violation(PID, os.path.relpath(path, vc.VERIF))
    cov = {
        "evaluations": tot["cases"] + regress,
        "distinct_nontrivial": tot["nontrivial"],
        "rule": "rapidcheck operation sequences (insert with replacement / re-insert of a node taken out with no_dispose / remove with and "
                "without disposal / find / lower bound / clear / iterate) over universes of 4-64 keys for set_compare_int (incl. INT_MIN/INT_MAX neighbours), _charp (case variants), _voidp, "
                "_ptr, each op followed by a model comparison and a structural audit; plus exhaustive BFS over every tree shape reachable over 7 "
                "storable keys with every op and every gap key. non-trivial (random part) = sequence with an insert after a successful "
                "remove, size >= 3 reached and an absent-key lookup, distinct by sequence hash; (BFS part) = distinct reachable tree states",
        "samples": samples[:4],
        "exhaustive": bool(bfs_ok),
        "exhaustive_scope": "all %d tree states reachable over %d storable keys (BFS part only); random part is sampling" % (bfs_states, nkeys),
        "bfs_states": bfs_states,
        "operations_executed": tot["ops"], "audits": tot["audits"],
        "classes": {"replacing_inserts": tot["replaced"], "absent_lookups": tot["absent_lookup"], "successful_removes": tot["removes_hit"],
                    "lower_bound_calls": tot["lower_calls"], "clears": tot["clears"], "recycled_node_inserts": tot["recycled"], "per_comparator_sequences": per_cmp},
        "regression_inputs_replayed": regress,
        "processes_crashed": crashed,
    }
    vc.write_evidence(PID, tier, seed, "exploration", cov, t.s(), nviol,
                      ["src/set.c compiled unmodified with ASan+UBSan and linked into harness/set_h.cpp", "std::map is the reference model",
                       "CMP_PTR elements live in a static arena, so they are only removed/cleared with no_dispose"] + vc.tool_versions())
    print("%s %s: %d sequences (%d ops), %d BFS states, %d violation(s), %.1fs" % (PID, tier, tot["cases"], tot["ops"], bfs_states, nviol, t.s()))
    return 1 if nviol else 0


def replay(pid, path):
    binary = build()
    msg = confirm(binary, path, 1)
    if msg:
        print("  " + msg)
        vc.report_violation(PID, path)
        return 1
    print("replay %s: property %s held" % (path, PID))
    return 0
