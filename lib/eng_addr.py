"""Engine E-addr (C12, C13): exhaustive enumerators, rapidcheck random cases and a
libFuzzer string target around irc_ntop / irc_pton / irc_check_mask."""
import glob
import hashlib
import json
import os
import shutil
import subprocess

import vcommon as vc

CXX = ["g++", "-std=gnu++17", "-g", "-O1", "-fsanitize=address"]
# memory-kind UBSan checks only: arithmetic kinds (shift, signed overflow) are
# observations, not violations of C12/C13 (DESIGN.md 2.1a)
SAN_MEM = ["-g", "-O1", "-fno-omit-frame-pointer",
           "-fsanitize=address,bounds,null,object-size,pointer-overflow,alignment", "-fno-sanitize-recover=all"]

SEEDS = ["127.0.0.1/32", "aaaa:0:0:bbbb::", "::ffff:1.2.3.4/100", "1:2:*", "f00d:b33f::cafe", "127.*", "***", "255.255.255.255",
         "1:2:3:4:5:6:7:127.0.0.1", "::1/129", "a::b:*", "192.168/16", "1:2:3:4:5:6:1.2.3.4/128", " 1.2.3.4"]


def build():
    hsrc = vc.harness_path("addr_h.cpp")
    stub = vc.harness_path("stubs_core.c")
    nmax = vc.harness_path("ntopmax.c")

    def b_obj(out):
        vc._parallel([
            CXX + vc.inc_flags() + ["-c", hsrc, "-o", os.path.join(out, "addr_h.o")],
            ["clang++", "-std=gnu++17", "-g", "-O1", "-DADDR_FUZZ", "-fsanitize=fuzzer,address"] + vc.inc_flags() + ["-c", hsrc, "-o", os.path.join(out, "addr_fz.o")],
            ["gcc", "-c", stub, "-o", os.path.join(out, "stubs.o")],
        ])
    obj = vc.cached_build("addr-obj", [hsrc, stub], CXX, b_obj)

    def b_bin(out):
        misc = os.path.join(vc.REPO, "modules", "iauth_misc.c")
        common = os.path.join(vc.REPO, "src", "common.c")
        gcc = ["gcc"] + SAN_MEM + vc.DEFS + vc.inc_flags() + ["-w", "-c"]
        clang = ["clang", "-g", "-O1", "-fsanitize=fuzzer-no-link,address,bounds,null,object-size,pointer-overflow,alignment",
                 "-fno-sanitize-recover=all"] + vc.DEFS + vc.inc_flags() + ["-w", "-c"]
        vc._parallel([
            gcc + [misc, "-o", os.path.join(out, "misc.o")],
            gcc + [common, "-o", os.path.join(out, "common.o")],
            ["gcc"] + vc.DEFS + vc.inc_flags() + ["-w", "-c", nmax, "-o", os.path.join(out, "ntopmax.o")],
            clang + [misc, "-o", os.path.join(out, "misc_fz.o")],
            clang + [common, "-o", os.path.join(out, "common_fz.o")],
        ])
        o = lambda *n: [os.path.join(out, x) for x in n]
        vc._parallel([
            ["g++", "-fsanitize=address,undefined", os.path.join(obj, "addr_h.o")] + o("misc.o", "common.o", "ntopmax.o") + [os.path.join(obj, "stubs.o"), "-lrapidcheck", "-levent", "-lm", "-o", os.path.join(out, "addr_h")],
            ["clang++", "-fsanitize=fuzzer,address,undefined", os.path.join(obj, "addr_fz.o")] + o("misc_fz.o", "common_fz.o", "ntopmax.o") + [os.path.join(obj, "stubs.o"), "-o", os.path.join(out, "addr_fuzz")],
        ])
    d = vc.cached_build("addr-bin", vc.repo_sources() + [hsrc, stub, nmax], (CXX, SAN_MEM), b_bin)
    return os.path.join(d, "addr_h"), os.path.join(d, "addr_fuzz")


def setup():
    build()


def last_json(text):
    for ln in reversed(text.strip().splitlines()):
        if ln.startswith("{"):
            try:
                return json.loads(ln)
            except ValueError:
                return None
    return None


def plan(pid, tier, seed):
    """-> list of (label, argv-tail, env) for addr_h, and fuzz parameters"""
    jobs = []
    big = tier == "thorough"
    rc = lambda n, w: {"RC_PARAMS": "seed=%d max_success=%d max_size=100" % ((seed * 31 + w * 7 + 11) % 2 ** 31, n)}
    if pid == "C12":
        for sh in range(8):
            jobs.append(("ntop_patterns", ["ntop_patterns", str(sh), "8"], {}))
        jobs.append(("ntop_v4", ["ntop_v4"], {}))
        for w in range(3):
            jobs.append(("random12", ["random12"], rc(3000000 if big else 150000, w)))
        for w in range(3):
            jobs.append(("idem", ["idem"], rc(2000000 if big else 150000, 10 + w)))
        maxlen = 6 if big else 5
        for sh in range(4):
            jobs.append(("pton_strings", ["pton_strings", str(maxlen), str(sh), "4"], {}))
        fuzz = None
    else:
        for sh in range(8):
            jobs.append(("mask_exhaust", ["mask_exhaust", str(sh), "8"], {}))
        jobs.append(("pton_grammar", ["pton_grammar"], {}))
        for w in range(2):
            jobs.append(("random13", ["random13"], rc(5000000 if big else 300000, w)))
        maxlen = 6 if big else 5
        nsh = 12 if big else 4
        for sh in range(nsh):
            jobs.append(("pton_strings", ["pton_strings", str(maxlen), str(sh), str(nsh)], {}))
        fuzz = {"procs": 4, "runs": 6000000 if big else 400000}
    return jobs, fuzz


RULES = {
    "C12": "exhaustive over all 5^8 = 390625 zero/1/2/3/4-digit patterns of the 8 groups (each with min, max and an index-derived value of its "
           "class), all IPv4-mapped / -compatible / neither shapes with 12 boundary octets per position, rapidcheck random 128-bit values, "
           "rapidcheck alternative renderings (uppercase, zero padding, each zero run compressed, dotted tail) that inet_pton accepts, and "
           "every string of length <= N over '0123456789af:./* ' that both parsers accept; oracle: length/terminator/no leading ':', "
           "inet_pton and irc_pton read the text back as canon(address), print(parse(text)) is a fixed point.  non-trivial = address with "
           ">= 2 zero runs, an IPv4 shape, or a string accepted by both parsers; counted per case",
    "C13": "exhaustive mask test over 8 groups x 129 lengths x 65536 XOR differences in that group (bit-level reference), rapidcheck "
           "multi-group triples, grammar-derived CIDR / short-form / wildcard texts with every length incl. out-of-range ones, every "
           "string of length <= N over the 17-symbol address alphabet in all four (bits, allow_trailing) modes in exact-size heap blocks "
           "under ASan with inet_pton agreement where both accept, plus a coverage-guided libFuzzer campaign on the same oracle.  "
           "non-trivial = difference straddling the prefix boundary inside a group, a grammar-derived mask text, or a string accepted by both parsers",
}


def run(pid, tier, seed):
    t = vc.Timer()
    binary, fuzzbin = build()
    root = vc.case_root()
    violations = []
    regress = 0
    rdir = os.path.join(vc.VERIF, "regress", pid)
    for f in sorted(glob.glob(os.path.join(rdir, "*.txt"))):
        regress += 1
        msg = confirm(binary, f, 1)
        if msg and confirm(binary, f, 3):
            violations.append((f, msg))
    jobs, fuzz = plan(pid, tier, seed)
    procs = []
    for i, (label, tail, env) in enumerate(jobs):
        e = dict(os.environ)
        e.update(env)
        e["ADDR_FAIL_PATH"] = os.path.join(root, "fail-%d.txt" % i)
        e["ASAN_OPTIONS"] = "detect_leaks=0:abort_on_error=0"
        procs.append((label, e["ADDR_FAIL_PATH"], vc.Proc([binary] + tail, env=e)))
    fprocs = []
    if fuzz:
        for i in range(fuzz["procs"]):
            corp = os.path.join(root, "corpus-%d" % i)
            art = os.path.join(root, "art-%d" % i) + "/"
            os.makedirs(corp)
            os.makedirs(art)
            for j, s in enumerate(SEEDS):
                with open(os.path.join(corp, "seed%d" % j), "w") as fh:
                    fh.write(s)
            e = dict(os.environ)
            e["ASAN_OPTIONS"] = "detect_leaks=0"
            fs = (seed * 101 + i * 13 + 1) % 2 ** 31 or 1
            fprocs.append((art, vc.Proc([fuzzbin, "-runs=%d" % fuzz["runs"], "-max_len=48", "-seed=%d" % fs, "-artifact_prefix=" + art,
                                         "-print_final_stats=1", "-timeout=20", corp], env=e)))
    tot_cases = tot_nt = 0
    classes = {}
    samples = []
    modes_ok = {}
    for label, fp, p in procs:
        out, err = p.communicate()
        j = last_json(out.decode(errors="replace"))
        if j is None:
            txt = (out + err).decode(errors="replace")
            path = save_text(pid, "crash", txt[-8000:])
            violations.append((path, "harness died in mode %s: %s" % (label, first_report(txt))))
            continue
        tot_cases += j["cases"]
        tot_nt += j["nontrivial"]
        modes_ok[label] = modes_ok.get(label, True) and j["ok"]
        classes[label] = classes.get(label, 0) + j["cases"]
        if len(samples) < 6:
            samples.extend(j["samples"][:2])
        if not j["ok"] and os.path.exists(fp):
            with open(fp) as fh:
                body = fh.read()
            path = save_text(pid, "case", body)
            msg = confirm(binary, path, 3)
            if msg:
                violations.append((path, msg))
            else:
                violations.append((path, body.strip().splitlines()[-1]))
    fuzz_execs = 0
    for art, p in fprocs:
        out, err = p.communicate()
        txt = err.decode(errors="replace")
        for ln in txt.splitlines():
            if ln.startswith("stat::number_of_executed_units:"):
                fuzz_execs += int(ln.split(":")[-1])
        for a in sorted(glob.glob(art + "crash-*")):
            with open(a, "rb") as fh:
                data = fh.read()
            body = "pton " + "".join(chr(c) if 0x20 <= c < 0x7f and c != 0x5c else "\\x%02x" % c for c in data) + "\n# libFuzzer artifact\n"
            path = save_text(pid, "fuzz", body)
            msg = confirm(binary, path, 3)
            violations.append((path, msg or ("libFuzzer crash: " + first_report(txt))))
    seen = set()
    nviol = 0
    for path, msg in violations:
        key = msg[:50]
        if key in seen:
            continue
        seen.add(key)
        nviol += 1
        print("  " + msg)
        vc.report_violation(pid, os.path.relpath(path, vc.VERIF))
    if fuzz:
        classes["libfuzzer_executions"] = fuzz_execs
    exhaustive_parts = [m for m in ("ntop_patterns", "ntop_v4", "mask_exhaust", "pton_strings") if modes_ok.get(m)]
    cov = {
        "evaluations": tot_cases + fuzz_execs + regress,
        "distinct_nontrivial": tot_nt,
        "rule": RULES[pid],
        "samples": samples[:6],
        "exhaustive": bool(exhaustive_parts) and nviol == 0,
        "exhaustive_scope": "finite sub-spaces enumerated completely: " + ", ".join(exhaustive_parts) + "; the random and fuzzing parts are sampling",
        "classes": classes,
        "regression_inputs_replayed": regress,
    }
    vc.write_evidence(pid, tier, seed, "exploration", cov, t.s(), nviol,
                      ["modules/iauth_misc.c and src/common.c compiled unmodified (ASan + memory-kind UBSan checks, arithmetic-kind UBSan checks deliberately off)",
                       "glibc inet_pton is the reference parser", "inputs, address and bits live in exact-size heap blocks"] + vc.tool_versions())
    print("%s %s: %d cases (+%d fuzz execs), %d non-trivial, %d violation(s), %.1fs" % (pid, tier, tot_cases, fuzz_execs, tot_nt, nviol, t.s()))
    return 1 if nviol else 0


def first_report(txt):
    for ln in txt.splitlines():
        if "ERROR: AddressSanitizer" in ln or "runtime error" in ln or "ORACLE-FAIL" in ln:
            return ln.strip()[:300]
    return (txt.strip().splitlines() or ["?"])[-1][:300]


def save_text(pid, kind, body):
    d = os.path.join(vc.REPLAYS, pid)
    os.makedirs(d, exist_ok=True)
    path = os.path.join(d, "%s-%s.txt" % (kind, hashlib.sha256(body.encode("latin-1", "replace")).hexdigest()[:12]))
    with open(path, "w", encoding="latin-1", errors="replace") as fh:
        fh.write(body)
    return path


def confirm(binary, path, times=3):
    msg = None
    e = dict(os.environ)
    e["ASAN_OPTIONS"] = "detect_leaks=0:abort_on_error=0"
    for _ in range(times):
        p = subprocess.run([binary, "replay", path], stdout=subprocess.PIPE, stderr=subprocess.PIPE, env=e)
        if p.returncode == 0:
            return None
        out = p.stdout.decode(errors="replace") + p.stderr.decode(errors="replace")
        m = [l for l in out.splitlines() if l.startswith("FAIL:") or "runtime error" in l or "AddressSanitizer" in l]
        msg = m[0][:300] if m else "exit %d" % p.returncode
    return msg


def replay(pid, path):
    binary, _ = build()
    msg = confirm(binary, path, 1)
    if msg:
        print("  " + msg)
        vc.report_violation(pid, path)
        return 1
    print("replay %s: property %s held" % (path, pid))
    return 0
