"""Generic Hypothesis search driver with worker fan-out, counters, shrinking,
replay confirmation and evidence output.  Property modules provide:

  strategy(tier)            -> hypothesis strategy producing JSON-able cases
  evaluate(case, ctx)       -> CaseResult
"""
import hashlib
import json
import multiprocessing as mp
import os
import sys
import time
import traceback

import vcommon as vc


class CaseResult:
    def __init__(self):
        self.violations = []     # objects with .pid .sig .msg
        self.classes = set()
        self.nontrivial = False
        self.inconclusive = None  # reason string
        self.notes = []
        self.extra = {}


class _Fail(Exception):
    pass


def case_hash(case):
    return hashlib.sha256(json.dumps(case, sort_keys=True, default=str).encode()).hexdigest()[:16]


def _worker(args):
    (modname, pid, tier, seed, n_examples, known_sigs, widx, opts) = args
    sys.path.insert(0, os.path.join(vc.VERIF, "lib"))
    import importlib
    from hypothesis import given, settings, seed as hseed, HealthCheck, Phase
    mod = importlib.import_module(modname)
    st = {
        "evaluations": 0, "nontrivial": set(), "classes": {}, "samples": [],
        "excluded_known": {}, "inconclusive": {}, "notes": {}, "fail": None, "other": {},
        "error": None,
    }
    ctx = mod.make_context(pid, tier, widx, opts)
    t_end = time.time() + opts.get("budget_s", 1e9)
    shrink_budget = opts.get("shrink_s", 40 if tier == "quick" else 240)
    t_fail = [None]
    hangs = [0]
    hang_budget = opts.get("hang_budget", 4)

    def run_one(case):
        r = mod.evaluate(case, ctx)
        st["evaluations"] += 1
        for c in r.classes:
            st["classes"][c] = st["classes"].get(c, 0) + 1
        for n in r.notes:
            st["notes"][n] = st["notes"].get(n, 0) + 1
        if r.inconclusive:
            st["inconclusive"][r.inconclusive] = st["inconclusive"].get(r.inconclusive, 0) + 1
            if r.inconclusive == "sut_hang":
                hangs[0] += 1
        if r.nontrivial:
            h = case_hash(case)
            if h not in st["nontrivial"]:
                st["nontrivial"].add(h)
                if len(st["samples"]) < 3 or (len(st["nontrivial"]) % 997 == 0 and len(st["samples"]) < 6):
                    st["samples"].append(case)
        mine = []
        for v in r.violations:
            if v.pid != pid:
                k = "%s:%s" % (v.pid, v.sig)
                st["other"][k] = st["other"].get(k, 0) + 1
                continue
            if v.sig in known_sigs:
                st["excluded_known"][v.sig] = st["excluded_known"].get(v.sig, 0) + 1
                continue
            mine.append(v)
        return mine

    @hseed(seed)
    @settings(max_examples=n_examples, database=None, deadline=None, derandomize=False,
              suppress_health_check=list(HealthCheck), report_multiple_bugs=False,
              phases=(Phase.generate, Phase.shrink), print_blob=False)
    @given(mod.strategy(pid, tier, opts))
    def test(case):
        if st["fail"] is None and time.time() > t_end:
            return   # budget exhausted: remaining examples are no-ops (counted as skipped)
        if st["fail"] is None and hangs[0] >= hang_budget:
            st["notes"]["worker stopped early: the daemon stopped answering in %d cases (hangs are judged by C08)" % hang_budget] = 1
            return   # every further case would cost the hang timeout; the property's own oracle saw nothing
        if t_fail[0] is not None and time.time() - t_fail[0] > shrink_budget:
            return   # shrinking budget used up: keep the smallest failing case found so far
        mine = run_one(case)
        if mine:
            if t_fail[0] is None:
                t_fail[0] = time.time()
            st["fail"] = {"case": case, "sig": mine[0].sig, "msg": mine[0].msg,
                          "all": ["%s: %s" % (v.sig, v.msg) for v in mine[:5]]}
            raise _Fail(mine[0].msg)

    try:
        test()
    except _Fail:
        pass
    except BaseException as e:  # Hypothesis wraps; our own bugs must not look like verdicts
        if st["fail"] is None:
            st["error"] = "".join(traceback.format_exception(type(e), e, e.__traceback__))[-3000:]
    finally:
        try:
            mod.close_context(ctx)
        except Exception:
            pass
    st["nontrivial"] = sorted(st["nontrivial"])
    return st


def search(modname, pid, tier, seed, n_examples, workers, opts=None, known_sigs=()):
    """Fan out; returns merged statistics dict."""
    opts = dict(opts or {})
    jobs = [(modname, pid, tier, (seed * 1000003 + w * 7919 + 17) % (2 ** 31), n_examples,
             tuple(known_sigs), w, opts) for w in range(workers)]
    if workers == 1:
        results = [_worker(jobs[0])]
    else:
        with mp.get_context("fork").Pool(workers) as pool:
            results = pool.map(_worker, jobs, chunksize=1)
    merged = {"evaluations": 0, "nontrivial": set(), "classes": {}, "samples": [],
              "excluded_known": {}, "inconclusive": {}, "notes": {}, "fails": [], "other": {}, "errors": []}
    for r in results:
        merged["evaluations"] += r["evaluations"]
        merged["nontrivial"].update(r["nontrivial"])
        for key in ("classes", "excluded_known", "inconclusive", "notes", "other"):
            for k, v in r[key].items():
                merged[key][k] = merged[key].get(k, 0) + v
        if len(merged["samples"]) < 5:
            merged["samples"].extend(r["samples"][:2])
        if r["fail"]:
            merged["fails"].append(r["fail"])
        if r["error"]:
            merged["errors"].append(r["error"])
    return merged


def confirm(modname, pid, case, tier="quick", times=3, known_sigs=()):
    """Re-run a case outside Hypothesis; returns list of violation strings seen
    in every one of `times` runs (empty if it does not reproduce)."""
    import importlib
    mod = importlib.import_module(modname)
    ctx = mod.make_context(pid, tier, 99, {})
    seen = None
    try:
        for _ in range(times):
            r = mod.evaluate(case, ctx)
            sigs = {}
            for v in r.violations:
                if v.pid == pid and v.sig not in known_sigs:
                    sigs.setdefault(v.sig, v.msg)
            if seen is None:
                seen = sigs
            else:
                seen = {k: m for k, m in seen.items() if k in sigs}
    finally:
        mod.close_context(ctx)
    return seen or {}
