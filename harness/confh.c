/* E-conf harness: command interpreter around /repo/src/config.c (linked
 * unmodified with set.c, common.c, bitset.c).  Logging is stubbed (captured).
 * Commands on stdin, one per line, tokens hex-encoded ("=" is the empty string,
 * "-" is NULL, "." is the root path, path components joined by '/'):
 *
 *   reg_obj <path>
 *   reg_str <parentpath> <name> <subtype 0..5> <default|->
 *   reg_list <parentpath> <name> <n> <item>...
 *   reg_inaddr <parentpath> <name> <host|-> <service|->
 *   load <filename-plain>          -> "L <rc>"
 *   dump                           -> "N ..." lines, then "E"
 *   hooks                          -> "H <path>" lines, then "E"   (and clears the log)
 *   logs                           -> "G <severity> <message>" lines, then "E" (and clears)
 *   typed <subtype> <text>         -> "T <success> <value>"    (calls the public conf_parse_* function)
 */
#include "src/common.h"

struct event_base *ev_base;
struct evdns_base *ev_dns;
int clean_exit;
struct log_type { int dummy; };
static struct log_type the_log;
struct log_type *log_core = &the_log;

static char logbuf[1 << 16];
static size_t loglen;

struct log_type *log_type_register(const char *name, const char *default_target)
{
    (void)name; (void)default_target;
    return &the_log;
}

void log_message(struct log_type *type, enum log_severity sev, const char *format, ...)
{
    va_list args;
    int n;
    (void)type;
    if (loglen + 600 > sizeof(logbuf))
        return;
    n = snprintf(logbuf + loglen, 16, "G %d ", (int)sev);
    loglen += n;
    va_start(args, format);
    n = vsnprintf(logbuf + loglen, 500, format, args);
    va_end(args);
    if (n > 499) n = 499;
    for (int i = 0; i < n; i++) if (logbuf[loglen + i] == '\n') logbuf[loglen + i] = ' ';
    loglen += n;
    logbuf[loglen++] = '\n';
    if (sev == LOG_FATAL) { fputs("FATAL\n", stdout); fflush(stdout); _exit(3); }
}

void module_close_all(void) {}

/* ------------------------------------------------------------------ hex */
static char *unhex(const char *h)
{
    size_t n, i;
    char *out;
    if (!strcmp(h, "-")) return NULL;
    if (!strcmp(h, "=")) return strdup("");
    n = strlen(h) / 2;
    out = malloc(n + 1);
    for (i = 0; i < n; i++) {
        unsigned v;
        sscanf(h + 2 * i, "%2x", &v);
        out[i] = (char)v;
    }
    out[n] = '\0';
    return out;
}

static void puthex(const char *s)
{
    if (!s) { fputs("-", stdout); return; }
    if (!*s) { fputs("=", stdout); return; }
    for (; *s; s++) printf("%02x", (unsigned char)*s);
}

/* ------------------------------------------------------------------ hooks */
static char hookbuf[1 << 16];
static size_t hooklen;

static void node_path(struct conf_node_base *n, char *buf, size_t size)
{
    /* path of hex names from the root */
    char tmp[4096];
    buf[0] = '\0';
    for (; n && n->parent; n = &n->parent->base) {
        char hx[1024];
        size_t k = 0;
        const char *s = n->name;
        if (!*s) { strcpy(hx, "="); }
        else { for (; *s && k + 3 < sizeof(hx); s++) k += sprintf(hx + k, "%02x", (unsigned char)*s); }
        snprintf(tmp, sizeof(tmp), "%s%s%s", hx, buf[0] ? "/" : "", buf);
        snprintf(buf, size, "%s", tmp);
    }
    if (!buf[0]) snprintf(buf, size, ".");
}

static CONF_UPDATE_HOOK(the_hook)
{
    char path[4096];
    node_path(node_, path, sizeof(path));
    if (hooklen + strlen(path) + 8 < sizeof(hookbuf))
        hooklen += sprintf(hookbuf + hooklen, "H %d %s\n", (int)node_->type, path);
}

/* ------------------------------------------------------------------ lookup */
static struct conf_node_object *find_obj(const char *path, int create)
{
    struct conf_node_object *obj = conf_get_root();
    char *copy, *tok, *save;
    if (!strcmp(path, ".")) return obj;
    copy = strdup(path);
    for (tok = strtok_r(copy, "/", &save); tok; tok = strtok_r(NULL, "/", &save)) {
        char *name = unhex(tok);
        struct conf_node_object *child = conf_get_child(obj, name, CONF_OBJECT);
        if (create) {
            /* registration adopts a node already created by a file */
            child = conf_register_object(obj, name);
            child->base.hook = the_hook;
        } else if (!child) {
            free(name); free(copy); return NULL;
        }
        free(name);
        obj = child;
    }
    free(copy);
    return obj;
}

/* ------------------------------------------------------------------ dump */
static void dump_obj(struct conf_node_object *obj, int depth)
{
    struct set_node *it;
    for (it = set_first(&obj->contents); it; it = set_next(it)) {
        struct conf_node_base *b = set_node_data(it);
        printf("N %d %d %d %d ", depth, (int)b->type, (int)b->present, (int)b->specified);
        puthex(b->name);
        switch (b->type) {
        case CONF_STRING: {
            struct conf_node_string *s = (struct conf_node_string *)b;
            printf(" %d ", (int)s->subtype);
            puthex(s->value);
            if (b->specified) {
                fputs(" ", stdout);
                switch (s->subtype) {
                case CONF_STRING_PLAIN: puthex(s->parsed.p_string); break;
                case CONF_STRING_BOOLEAN: printf("%d", s->parsed.p_boolean); break;
                case CONF_STRING_INTEGER: printf("%d", s->parsed.p_integer); break;
                case CONF_STRING_FLOAT: printf("%.17g", s->parsed.p_double); break;
                case CONF_STRING_INTERVAL: printf("%u", s->parsed.p_interval); break;
                case CONF_STRING_VOLUME: printf("%u", s->parsed.p_volume); break;
                }
            }
            fputs("\n", stdout);
            break;
        }
        case CONF_INADDR: {
            struct conf_node_inaddr *a = (struct conf_node_inaddr *)b;
            fputs(" ", stdout); puthex(a->hostname); fputs(" ", stdout); puthex(a->service); fputs("\n", stdout);
            break;
        }
        case CONF_STRING_LIST: {
            struct conf_node_string_list *l = (struct conf_node_string_list *)b;
            unsigned ii;
            printf(" %u", l->value.used);
            for (ii = 0; ii < l->value.used; ii++) { fputs(" ", stdout); puthex(l->value.vec[ii]); }
            fputs("\n", stdout);
            break;
        }
        case CONF_OBJECT: {
            struct conf_node_object *o = (struct conf_node_object *)b;
            printf(" %u\n", set_size(&o->contents));
            if (b->parent != obj) printf("X parent pointer of this object is wrong\n");
            dump_obj(o, depth + 1);
            break;
        }
        }
        if (b->parent != obj) printf("X parent pointer wrong\n");
    }
}

int main(void)
{
    static char line[1 << 20];
    ctype_init();
    conf_get_root();
    while (fgets(line, sizeof(line), stdin)) {
        char *argv[4096];
        int argc = 0;
        char *tok, *save;
        for (tok = strtok_r(line, " \n", &save); tok && argc < 4096; tok = strtok_r(NULL, " \n", &save))
            argv[argc++] = tok;
        if (!argc) continue;
        if (!strcmp(argv[0], "reg_obj") && argc >= 2) {
            find_obj(argv[1], 1);
            puts("ok");
        } else if (!strcmp(argv[0], "reg_str") && argc >= 5) {
            struct conf_node_object *p = find_obj(argv[1], 1);
            char *name = unhex(argv[2]);
            char *def = unhex(argv[4]);   /* kept alive: config.c stores the pointer */
            struct conf_node_string *s = conf_register_string(p, atoi(argv[3]), name, def);
            s->base.hook = the_hook;
            free(name);
            puts("ok");
        } else if (!strcmp(argv[0], "reg_list") && argc >= 4) {
            struct conf_node_object *p = find_obj(argv[1], 1);
            char *name = unhex(argv[2]);
            struct string_vector sv;
            struct conf_node_string_list *l;
            int n = atoi(argv[3]), i;
            memset(&sv, 0, sizeof(sv));
            for (i = 0; i < n && 4 + i < argc; i++)
                string_vector_append(&sv, unhex(argv[4 + i]));
            l = conf_register_string_list_sv(p, name, &sv);
            l->base.hook = the_hook;
            string_vector_clear_int(&sv);
            free(name);
            puts("ok");
        } else if (!strcmp(argv[0], "reg_inaddr") && argc >= 5) {
            struct conf_node_object *p = find_obj(argv[1], 1);
            char *name = unhex(argv[2]);
            struct conf_node_inaddr *a = conf_register_inaddr(p, name, unhex(argv[3]), unhex(argv[4]));
            a->base.hook = the_hook;
            free(name);
            puts("ok");
        } else if (!strcmp(argv[0], "load") && argc >= 2) {
            int rc = conf_read(argv[1]);
            printf("L %d\n", rc);
        } else if (!strcmp(argv[0], "dump")) {
            dump_obj(conf_get_root(), 0);
            puts("E");
        } else if (!strcmp(argv[0], "hooks")) {
            fwrite(hookbuf, 1, hooklen, stdout);
            hooklen = 0;
            puts("E");
        } else if (!strcmp(argv[0], "logs")) {
            fwrite(logbuf, 1, loglen, stdout);
            loglen = 0;
            puts("E");
        } else if (!strcmp(argv[0], "typed") && argc >= 3) {
            char *text = unhex(argv[2]);
            int ok = -1;
            switch (atoi(argv[1])) {
            case 1: { int v = conf_parse_boolean(text, &ok); printf("T %d %d\n", ok, v); break; }
            case 2: { int v = conf_parse_integer(text, &ok); printf("T %d %d\n", ok, v); break; }
            case 3: { double v = conf_parse_float(text, &ok); printf("T %d %.17g\n", ok, v); break; }
            case 4: { unsigned v = conf_parse_interval(text, &ok); printf("T %d %u\n", ok, v); break; }
            case 5: { unsigned v = conf_parse_volume(text, &ok); printf("T %d %u\n", ok, v); break; }
            default: puts("T -1 0");
            }
            free(text);
        } else if (!strcmp(argv[0], "quit")) {
            break;
        } else {
            puts("?");
        }
        fflush(stdout);
    }
    fflush(stdout);
    call_exit_funcs();
    return 0;
}
