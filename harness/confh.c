/* E-conf harness: command interpreter around /repo/src/config.c (linked
 * unmodified with set.c, common.c, bitset.c).  Logging is stubbed (captured).
 * Commands on stdin, one per line, tokens hex-encoded ("=" is the empty string,
 * "-" is NULL, "." is the root path, path components joined by '/'):
 *
 *   reg_obj <path>
 *   reg_str <parentpath> <name> <subtype 0..5> <default|->
 *   reg_list <parentpath> <name> <n> <item>...
 *   reg_inaddr <parentpath> <name> <host|-> <service|->
 *   load <filename-plain>          -> "L <rc>"
 *   dump                           -> "N ..." lines, then "E"
 *   hooks                          -> "H <path>" lines, then "E"   (and clears the log)
 *   logs                           -> "G <severity> <message>" lines, then "E" (and clears)
 *   typed <subtype> <text>         -> "T <success> <value>"    (calls the public conf_parse_* function)
 */
#include "src/common.h"

struct event_base *ev_base;
struct evdns_base *ev_dns;
int clean_exit;
struct log_type { int dummy; };
static struct log_type the_log;
struct log_type *log_core = &the_log;

static char logbuf[1 << 16];
static size_t loglen;

struct log_type *log_type_register(const char *name, const char *default_target)
{
    (void)name; (void)default_target;
    return &the_log;
}

void log_message(struct log_type *type, enum log_severity sev, const char *format, ...)
{
    va_list args;
    int n;
    (void)type;
    if (loglen + 600 > sizeof(logbuf))
        return;
    n = snprintf(logbuf + loglen, 16, "G %d ", (int)sev);
    loglen += n;
    va_start(args, format);
    n = vsnprintf(logbuf + loglen, 500, format, args);
    va_end(args);
    if (n > 499) n = 499;
    for (int i = 0; i < n; i++) if (logbuf[loglen + i] == '\n') logbuf[loglen + i] = ' ';
    loglen += n;
    logbuf[loglen++] = '\n';
    if (sev == LOG_FATAL) { fputs("FATAL\n", stdout); fflush(stdout); _exit(3); }
}

void module_close_all(void) {}

/* ------------------------------------------------------------------ hex */
static char *unhex(const char *h)
{
    size_t n, i;
    char *out;
    if (!strcmp(h, "-")) return NULL;
    if (!strcmp(h, "=")) return strdup("");
    n = strlen(h) / 2;
    out = malloc(n + 1);
    for (i = 0; i < n; i++) {
        unsigned v;
        sscanf(h + 2 * i, "%2x", &v);
        out[i] = (char)v;
    }
    out[n] = '\0';
    return out;
}

static FILE *dump_to;
#define OUTF (dump_to ? dump_to : stdout)
static void puthex(const char *s)
{
    if (!s) { fputs("-", OUTF); return; }
    if (!*s) { fputs("=", OUTF); return; }
    for (; *s; s++) fprintf(OUTF, "%02x", (unsigned char)*s);
}

/* ------------------------------------------------------------------ hooks */
static char hookbuf[1 << 16];
static size_t hooklen;

static int path_fold;   /* 1: hex of the lower-cased names (node names keep the spelling of whoever created them first) */
static void node_path(struct conf_node_base *n, char *buf, size_t size)
{
    /* path of hex names from the root */
    char tmp[4096];
    buf[0] = '\0';
    for (; n && n->parent; n = &n->parent->base) {
        char hx[1024];
        size_t k = 0;
        const char *s = n->name;
        if (!*s) { strcpy(hx, "="); }
        else { for (; *s && k + 3 < sizeof(hx); s++) k += sprintf(hx + k, "%02x", (unsigned char)(path_fold && *s >= 'A' && *s <= 'Z' ? *s + 32 : *s)); }
        snprintf(tmp, sizeof(tmp), "%s%s%s", hx, buf[0] ? "/" : "", buf);
        snprintf(buf, size, "%s", tmp);
    }
    if (!buf[0]) snprintf(buf, size, ".");
}

/* registrations that a change hook performs itself (a module that learns from one setting that it needs another) */
static struct pending_reg {
    char trigger[512];      /* hex path of the node whose hook registers */
    char parent[512], name[256], def[256];
    int subtype, has_def, done, tag;
} pending[8];
static int npending;
static struct conf_node_object *find_obj(const char *path, int create);
static char *unhex(const char *h);
static CONF_UPDATE_HOOK(the_hook);

static void run_pending(const char *path)
{
    int i;
    for (i = 0; i < npending; i++) {
        struct pending_reg *pr = &pending[i];
        if (pr->done || strcasecmp(pr->trigger, path))
            continue;
        pr->done = 1;
        {
            struct conf_node_object *p = find_obj(pr->parent, 1);
            char *name = unhex(pr->name);
            char *def = pr->has_def ? unhex(pr->def) : NULL;      /* kept alive: config.c stores the pointer */
            struct conf_node_string *sn = conf_register_string(p, pr->subtype, name, def);
            sn->base.hook = the_hook;
            if (hooklen + 600 < sizeof(hookbuf))
                hooklen += sprintf(hookbuf + hooklen, "R %d %s\n", pr->tag, path);
            free(name);
        }
    }
}

static CONF_UPDATE_HOOK(the_hook)
{
    char path[4096];
    node_path(node_, path, sizeof(path));
    if (hooklen + strlen(path) + 8 < sizeof(hookbuf))
        hooklen += sprintf(hookbuf + hooklen, "H %d %s\n", (int)node_->type, path);
    if (npending) {
        path_fold = 1;
        node_path(node_, path, sizeof(path));
        path_fold = 0;
        run_pending(path);
    }
}

/* ------------------------------------------------------------------ lookup */
static struct conf_node_object *find_obj(const char *path, int create)
{
    struct conf_node_object *obj = conf_get_root();
    char *copy, *tok, *save;
    if (!strcmp(path, ".")) return obj;
    copy = strdup(path);
    for (tok = strtok_r(copy, "/", &save); tok; tok = strtok_r(NULL, "/", &save)) {
        char *name = unhex(tok);
        struct conf_node_object *child = conf_get_child(obj, name, CONF_OBJECT);
        if (create) {
            /* registration adopts a node already created by a file */
            child = conf_register_object(obj, name);
            child->base.hook = the_hook;
        } else if (!child) {
            free(name); free(copy); return NULL;
        }
        free(name);
        obj = child;
    }
    free(copy);
    return obj;
}

/* ------------------------------------------------------------------ dump */
static void dump_obj(struct conf_node_object *obj, int depth)
{
    struct set_node *it;
    for (it = set_first(&obj->contents); it; it = set_next(it)) {
        struct conf_node_base *b = set_node_data(it);
        fprintf(OUTF, "N %d %d %d %d ", depth, (int)b->type, (int)b->present, (int)b->specified);
        puthex(b->name);
        switch (b->type) {
        case CONF_STRING: {
            struct conf_node_string *s = (struct conf_node_string *)b;
            fprintf(OUTF, " %d ", (int)s->subtype);
            puthex(s->value);
            if (b->specified) {
                fputs(" ", OUTF);
                switch (s->subtype) {
                case CONF_STRING_PLAIN: puthex(s->parsed.p_string); break;
                case CONF_STRING_BOOLEAN: fprintf(OUTF, "%d", s->parsed.p_boolean); break;
                case CONF_STRING_INTEGER: fprintf(OUTF, "%d", s->parsed.p_integer); break;
                case CONF_STRING_FLOAT: fprintf(OUTF, "%.17g", s->parsed.p_double); break;
                case CONF_STRING_INTERVAL: fprintf(OUTF, "%u", s->parsed.p_interval); break;
                case CONF_STRING_VOLUME: fprintf(OUTF, "%u", s->parsed.p_volume); break;
                }
            }
            fputs("\n", OUTF);
            break;
        }
        case CONF_INADDR: {
            struct conf_node_inaddr *a = (struct conf_node_inaddr *)b;
            fputs(" ", OUTF); puthex(a->hostname); fputs(" ", OUTF); puthex(a->service); fputs("\n", OUTF);
            break;
        }
        case CONF_STRING_LIST: {
            struct conf_node_string_list *l = (struct conf_node_string_list *)b;
            unsigned ii;
            fprintf(OUTF, " %u", l->value.used);
            for (ii = 0; ii < l->value.used; ii++) { fputs(" ", OUTF); puthex(l->value.vec[ii]); }
            fputs("\n", OUTF);
            break;
        }
        case CONF_OBJECT: {
            struct conf_node_object *o = (struct conf_node_object *)b;
            fprintf(OUTF, " %u\n", set_size(&o->contents));
            if (b->parent != obj) fprintf(OUTF, "X parent pointer of this object is wrong\n");
            dump_obj(o, depth + 1);
            break;
        }
        }
        if (b->parent != obj) fprintf(OUTF, "X parent pointer wrong\n");
    }
}

#ifdef CONFH_FUZZ
/* libFuzzer target for C14: prior state = registrations + one of the built-in
 * valid files; candidate = fuzz bytes.  A rejected candidate must leave the
 * canonical dump unchanged and the hook log empty. */
#include <sys/stat.h>
#include <signal.h>
#ifdef CONFH_ENUM
static const uint8_t *cur_data;
static size_t cur_size;
static char fail_path[520];
static void save_current(void)
{
    FILE *f = fopen(fail_path, "wb");
    if (f) { fwrite(cur_data, 1, cur_size, f); fclose(f); }
}
#define ORACLE_TRAP() do { save_current(); fflush(stderr); _exit(78); } while (0)
#else
#define ORACLE_TRAP() __builtin_trap()
#endif
static const char *PRIORS[] = {
    "ra { s1 one; s2 \"two\"; i1 0x10; b1 off; iv 1h; vol 2M; fl 2.5; l1 (p, q, r); l2 (z); ad \"::2\" 8080; sub { s3 x; un 1 } ; extra (1); };\n"
    "top level;\nrb { s1 bee; obj { k v }; };\nstray { a b; c (d); };\n",
    "ra { s1 \"\\x41\\n\"; l1 (); ad host svc; nh quiet; }\nrb { }\n",
    "\n",
    "core { modules ( iauth_class, iauth_xquery ); }\nlogs { \"*.>=info\" \"file:x.log\" }\niauth_class { r1 { class a; address \"10.0.0.0/8\" }; }\n",
};
#ifdef CONFH_ENUM
static unsigned long enum_rejected, enum_accepted;
#endif
static char *dump_string(void)
{
    char *buf = NULL;
    size_t len = 0;
    dump_to = open_memstream(&buf, &len);
    dump_obj(conf_get_root(), 0);
    fclose(dump_to);
    dump_to = NULL;
    return buf;
}
int LLVMFuzzerTestOneInput(const uint8_t *data, size_t size)
{
    static int inited;
    static char dir[400], prior_path[480], cand_path[480];
    char *d0, *d1;
    FILE *f;
    int rc;
    if (!inited) {
        const char *base = getenv("VERIF_INPROC_DIR");
        struct conf_node_object *ra, *sub, *rb;
        static struct string_vector sv;
        snprintf(dir, sizeof(dir), "%s/conffuzz-%d", base ? base : "/verif/build/tmp", (int)getpid());
        mkdir(dir, 0755);
        snprintf(prior_path, sizeof(prior_path), "%s/prior.conf", dir);
        snprintf(cand_path, sizeof(cand_path), "%s/cand.conf", dir);
        ctype_init();
        ra = find_obj("7261", 1);
        sub = find_obj("7261/737562", 1);
        rb = find_obj("7262", 1);
        conf_register_string(ra, CONF_STRING_PLAIN, "s1", "dflt")->base.hook = the_hook;
        conf_register_string(ra, CONF_STRING_PLAIN, "s2", NULL)->base.hook = the_hook;
        conf_register_string(ra, CONF_STRING_INTEGER, "i1", "7")->base.hook = the_hook;
        conf_register_string(ra, CONF_STRING_BOOLEAN, "b1", "true")->base.hook = the_hook;
        conf_register_string(ra, CONF_STRING_INTERVAL, "iv", "30")->base.hook = the_hook;
        conf_register_string(ra, CONF_STRING_VOLUME, "vol", "1K")->base.hook = the_hook;
        conf_register_string(ra, CONF_STRING_FLOAT, "fl", "1.5")->base.hook = the_hook;
        string_vector_append(&sv, strdup("x"));
        string_vector_append(&sv, strdup("y"));
        conf_register_string_list_sv(ra, "l1", &sv)->base.hook = the_hook;
        conf_register_inaddr(ra, "ad", "::1", "80")->base.hook = the_hook;
        conf_register_string(sub, CONF_STRING_PLAIN, "s3", "deep")->base.hook = the_hook;
        conf_register_string(rb, CONF_STRING_PLAIN, "s1", "other")->base.hook = the_hook;
        conf_register_string(NULL, CONF_STRING_PLAIN, "top", "t")->base.hook = the_hook;
        conf_register_string(ra, CONF_STRING_PLAIN, "nh", NULL);      /* no change hook */
        inited = 1;
    }
    if (size < 1)
        return 0;
    f = fopen(prior_path, "w");
    fputs(PRIORS[data[0] % (sizeof(PRIORS) / sizeof(PRIORS[0]))], f);
    fclose(f);
    if (conf_read(prior_path) != 0) {
        fprintf(stderr, "ORACLE-FAIL: built-in prior file rejected\n");
        ORACLE_TRAP();
    }
    f = fopen(cand_path, "w");
    fwrite(data + 1, 1, size - 1, f);
    fclose(f);
    d0 = dump_string();
    hooklen = 0;
    loglen = 0;
    rc = conf_read(cand_path);
#ifdef CONFH_ENUM
    if (rc) enum_rejected++; else enum_accepted++;
#endif
    if (rc != 0) {
        d1 = dump_string();
        if (strcmp(d0, d1)) {
            fprintf(stderr, "ORACLE-FAIL: load failed (%d) but the live configuration changed\n--- before\n%s--- after\n%s", rc, d0, d1);
            ORACLE_TRAP();
        }
        if (hooklen) {
            fprintf(stderr, "ORACLE-FAIL: load failed (%d) but change hooks ran: %.*s\n", rc, (int)hooklen, hookbuf);
            ORACLE_TRAP();
        }
        free(d1);
    }
    free(d0);
    hooklen = 0;
    loglen = 0;
    return 0;
}
#endif
#if defined(CONFH_ENUM)
/* Exhaustive crash-point enumerator for C14 (DESIGN section 7): every byte prefix, every
 * single-bit flip, every single-byte deletion and every insertion of a grammar token at
 * every position of every corpus file, each on top of every built-in prior state.
 * usage: conf_enum <shard> <nshards> <workdir> <corpusfile>...  */
extern void __sanitizer_set_death_callback(void (*)(void));
static unsigned long n_cases, n_by_kind[4];
static void enum_on_abort(int sig)
{
    static const char msg[] = "ORACLE-FAIL: the code under test aborted (failed assertion?) on this candidate\n";
    (void)sig;
    save_current();
    if (write(2, msg, sizeof(msg) - 1) < 0) { /* ignore */ }
    _exit(79);
}
static void one(uint8_t *buf, size_t n)
{
    cur_data = buf; cur_size = n;
    LLVMFuzzerTestOneInput(buf, n);
    n_cases++;
}
int main(int argc, char **argv)
{
    static const char *TOKENS[] = { "{", "}", "(", ")", "\"", ",", ";", "\\", "/*", "*/", "//", "\n", " ", "\"\\", "a b c", "((", "\xef\xbb\xbf" /* UTF-8 byte order mark */ };
    unsigned shard, nshards, np = sizeof(PRIORS) / sizeof(PRIORS[0]), nt = sizeof(TOKENS) / sizeof(TOKENS[0]);
    unsigned long idx = 0;
    int fi;
    if (argc < 5) return 2;
    shard = atoi(argv[1]); nshards = atoi(argv[2]);
    setenv("VERIF_INPROC_DIR", argv[3], 1);
    snprintf(fail_path, sizeof(fail_path), "%s/enum-fail-%u.bin", argv[3], shard);
    __sanitizer_set_death_callback(save_current);
    signal(SIGABRT, enum_on_abort);      /* a failed assert() inside the code under test is a failure too */
    for (fi = 4; fi < argc; fi++) {
        static uint8_t text[1 << 16], buf[(1 << 16) + 64];
        size_t n, pos;
        unsigned p, b, t;
        FILE *f = fopen(argv[fi], "rb");
        if (!f) return 2;
        n = fread(text, 1, sizeof(text), f);
        fclose(f);
        for (p = 0; p < np; p++) {
            buf[0] = (uint8_t)p;
            for (pos = 0; pos <= n; pos++, idx++) {
                if (idx % nshards != shard) continue;
                /* prefix */
                memcpy(buf + 1, text, pos);
                one(buf, 1 + pos); n_by_kind[0]++;
                if (pos == n) break;
                /* bit flips */
                memcpy(buf + 1, text, n);
                for (b = 0; b < 8; b++) {
                    buf[1 + pos] = text[pos] ^ (uint8_t)(1u << b);
                    one(buf, 1 + n); n_by_kind[1]++;
                }
                /* single-byte deletion */
                memcpy(buf + 1, text, pos);
                memcpy(buf + 1 + pos, text + pos + 1, n - pos - 1);
                one(buf, n); n_by_kind[2]++;
                /* token insertion */
                for (t = 0; t < nt; t++) {
                    size_t tl = strlen(TOKENS[t]);
                    memcpy(buf + 1, text, pos);
                    memcpy(buf + 1 + pos, TOKENS[t], tl);
                    memcpy(buf + 1 + pos + tl, text + pos, n - pos);
                    one(buf, 1 + n + tl); n_by_kind[3]++;
                }
            }
        }
    }
    printf("ENUM cases=%lu prefix=%lu bitflip=%lu delete=%lu insert=%lu rejected=%lu accepted=%lu\n", n_cases,
           n_by_kind[0], n_by_kind[1], n_by_kind[2], n_by_kind[3], enum_rejected, enum_accepted);
    return 0;
}
#elif !defined(CONFH_FUZZ)
int main(void)
{
    static char line[1 << 20];
    ctype_init();
    conf_get_root();
    while (fgets(line, sizeof(line), stdin)) {
        char *argv[4096];
        int argc = 0;
        char *tok, *save;
        for (tok = strtok_r(line, " \n", &save); tok && argc < 4096; tok = strtok_r(NULL, " \n", &save))
            argv[argc++] = tok;
        if (!argc) continue;
        if (!strcmp(argv[0], "reg_obj") && argc >= 2) {
            find_obj(argv[1], 1);
            puts("ok");
        } else if (!strcmp(argv[0], "reg_str") && argc >= 5) {
            struct conf_node_object *p = find_obj(argv[1], 1);
            char *name = unhex(argv[2]);
            char *def = unhex(argv[4]);   /* kept alive: config.c stores the pointer */
            struct conf_node_string *s = conf_register_string(p, atoi(argv[3]), name, def);
            if (!(argc >= 6 && !strcmp(argv[5], "nohook")))      /* a consumer that only reads the value when it needs it */
                s->base.hook = the_hook;
            free(name);
            puts("ok");
        } else if (!strcmp(argv[0], "reg_onhook") && argc >= 7 && npending < 8) {
            /* reg_onhook <trigger hexpath> <parentpath> <name> <subtype> <default|-> <tag> : register a string setting from inside the trigger's hook */
            struct pending_reg *pr = &pending[npending++];
            memset(pr, 0, sizeof(*pr));
            snprintf(pr->trigger, sizeof(pr->trigger), "%s", argv[1]);
            snprintf(pr->parent, sizeof(pr->parent), "%s", argv[2]);
            snprintf(pr->name, sizeof(pr->name), "%s", argv[3]);
            pr->subtype = atoi(argv[4]);
            pr->has_def = strcmp(argv[5], "-") != 0;
            snprintf(pr->def, sizeof(pr->def), "%s", argv[5]);
            pr->tag = atoi(argv[6]);
            puts("ok");
        } else if (!strcmp(argv[0], "reg_list") && argc >= 4) {
            struct conf_node_object *p = find_obj(argv[1], 1);
            char *name = unhex(argv[2]);
            struct string_vector sv;
            struct conf_node_string_list *l;
            int n = atoi(argv[3]), i;
            memset(&sv, 0, sizeof(sv));
            for (i = 0; i < n && 4 + i < argc; i++)
                string_vector_append(&sv, unhex(argv[4 + i]));
            /* both registration entry points: the vector form, and the NULL-terminated argument list for short lists */
            static unsigned which;
            if (n <= 3 && (which++ & 1))
                l = conf_register_string_list(p, name, n > 0 ? sv.vec[0] : NULL, n > 1 ? sv.vec[1] : NULL, n > 2 ? sv.vec[2] : NULL, NULL);
            else
                l = conf_register_string_list_sv(p, name, &sv);
            l->base.hook = the_hook;
            string_vector_clear_int(&sv);
            free(name);
            puts("ok");
        } else if (!strcmp(argv[0], "reg_inaddr") && argc >= 5) {
            struct conf_node_object *p = find_obj(argv[1], 1);
            char *name = unhex(argv[2]);
            struct conf_node_inaddr *a = conf_register_inaddr(p, name, unhex(argv[3]), unhex(argv[4]));
            a->base.hook = the_hook;
            free(name);
            puts("ok");
        } else if (!strcmp(argv[0], "load") && argc >= 2) {
            int rc = conf_read(argv[1]);
            printf("L %d\n", rc);
        } else if (!strcmp(argv[0], "dump")) {
            dump_obj(conf_get_root(), 0);
            puts("E");
        } else if (!strcmp(argv[0], "hooks")) {
            fwrite(hookbuf, 1, hooklen, stdout);
            hooklen = 0;
            puts("E");
        } else if (!strcmp(argv[0], "logs")) {
            fwrite(logbuf, 1, loglen, stdout);
            loglen = 0;
            puts("E");
        } else if (!strcmp(argv[0], "typed") && argc >= 3) {
            char *text = unhex(argv[2]);
            int ok = -1;
            switch (atoi(argv[1])) {
            case 1: { int v = conf_parse_boolean(text, &ok); printf("T %d %d\n", ok, v); break; }
            case 2: { int v = conf_parse_integer(text, &ok); printf("T %d %d\n", ok, v); break; }
            case 3: { double v = conf_parse_float(text, &ok); printf("T %d %.17g\n", ok, v); break; }
            case 4: { unsigned v = conf_parse_interval(text, &ok); printf("T %d %u\n", ok, v); break; }
            case 5: { unsigned v = conf_parse_volume(text, &ok); printf("T %d %u\n", ok, v); break; }
            default: puts("T -1 0");
            }
            free(text);
        } else if (!strcmp(argv[0], "quit")) {
            break;
        } else {
            puts("?");
        }
        fflush(stdout);
    }
    fflush(stdout);
    call_exit_funcs();
    return 0;
}
#endif
