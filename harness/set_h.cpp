// E-set: rapidcheck operation sequences + exhaustive BFS over tree shapes for
// /repo/src/set.c, oracle = std::map + structural audit + cleanup accounting.
//   set_h rc <ncases> <maxsize>   (RC_PARAMS carries the seed)
//   set_h bfs <nkeys>
//   set_h replay <file>
// Prints one JSON object on the last line of stdout.
#include <rapidcheck.h>
#include <algorithm>
#include <climits>
#include <cstdio>
#include <cstdlib>
#include <cstring>
#include <deque>
#include <fstream>
#include <functional>
#include <map>
#include <set>
#include <sstream>
#include <string>
#include <strings.h>
#include <vector>

#define MALLOC_LIKE
extern "C" {
#include "src/set.h"
void *xmalloc(unsigned int size) { void *p = calloc(1, size); if (!p) abort(); return p; }
}
#ifndef xfree
#define xfree(P) free(P)
#endif

// ---------------------------------------------------------------- elements
enum Cmp { CMP_INT = 0, CMP_CHARP = 1, CMP_VOIDP = 2, CMP_PTR = 3 };
static const char *cmp_names[] = {"int", "charp", "voidp", "ptr"};

struct Elem {             // payload that follows struct set_node
    union { int i; const char *s; void *p; } k;
    int id;
};

static std::map<int, int> g_cleanups;   // element id -> number of cleanup calls
static std::set<int> g_inset;           // ids currently believed to be in the set
static std::string g_fail;              // first failure message of the current case

// "never on an element still in the set": while set_remove / set_clear run an element's cleanup, the set's own
// lookup must not report that element as a member any more (module.c's cleanup looks into its set like this).
// During a replacing insert the key is by definition still a member (the new element), so nothing is asked then.
static struct set *g_cb_set;
static int g_cb_mode;                   // 0 = no question, 1 = inside set_remove, 2 = inside set_clear
static int g_cb_member_seen;

static int g_scrub_cmp = -1;            // comparator of the running case (for the scrubbing below)
static void elem_cleanup(void *data) {
    Elem *e = (Elem *)data;
    g_cleanups[e->id]++;
    if (g_cb_mode && g_cb_set && set_find(g_cb_set, data) != NULL)
        g_cb_member_seen = e->id;
    // a cleanup may do what it likes with the element it is given: scrub the key (it then reads as another valid key)
    if (g_scrub_cmp == CMP_INT) e->k.i = 0;
    else if (g_scrub_cmp == CMP_CHARP) e->k.s = "";
}

// key universe per comparator; model order = intended mathematical order
struct Universe {
    Cmp cmp;
    std::vector<int> ints;
    std::vector<std::string> strs;
    std::vector<void *> ptrs;
    std::vector<long long> ranks;
    size_t size() const { return cmp == CMP_INT ? ints.size() : cmp == CMP_CHARP ? strs.size() : ptrs.size(); }
};

static char g_arena[4096];   // addresses for voidp keys

// rank of key index in the intended order (ties: equal keys share a rank)
static long long rank_of(const Universe &u, int idx) {
    if (u.cmp == CMP_CHARP && u.ranks.size() == u.strs.size()) return u.ranks[idx];
    switch (u.cmp) {
    case CMP_INT: return u.ints[idx];
    case CMP_CHARP: { // case-insensitive order: rank = position among sorted lower-cased distinct strings
        std::vector<std::string> low;
        for (auto &s : u.strs) { std::string l = s; for (auto &c : l) c = tolower((unsigned char)c); low.push_back(l); }
        std::vector<std::string> sorted = low; std::sort(sorted.begin(), sorted.end());
        sorted.erase(std::unique(sorted.begin(), sorted.end()), sorted.end());
        return std::lower_bound(sorted.begin(), sorted.end(), low[idx]) - sorted.begin();
    }
    default: return (long long)((uintptr_t)u.ptrs[idx] ^ ((uintptr_t)1 << 63));   // address order (unsigned), kept in a signed rank
    }
}

struct Op { int kind; int key; int flag; };
// kinds: 0 insert, 1 remove(dispose=!flag), 2 find, 3 lower, 4 clear(no_dispose=flag), 5 iterate,
//        6 insert a recycled node: one that was taken out with no_dispose and still carries its old links
static const char *op_names[] = {"insert", "remove", "find", "lower", "clear", "iterate", "reinsert"};

struct Counters {
    long cases = 0, ops = 0, nontrivial = 0, audits = 0, replaced = 0, absent_lookup = 0, removes_hit = 0, lower_calls = 0, clears = 0, recycled = 0;
    long per_cmp[4] = {0, 0, 0, 0};
    long extreme_int_cases = 0;
    std::set<size_t> nt_hashes;
} C;

// ---------------------------------------------------------------- harness
struct Harness {
    const Universe &u;
    struct set st;
    std::map<long long, int> model;          // rank -> element id
    std::map<int, struct set_node *> nodes;  // element id -> node (while allocated by us)
    std::map<int, int> id_key;               // element id -> key index
    int next_id = 1;
    int max_size = 0; bool interleaved = false; bool absent = false; bool removed_any = false;
    std::vector<void *> ptr_nodes_by_key;    // for CMP_PTR: the node that *is* the key
    std::map<int, struct set_node *> recycled;  // key index -> node removed with no_dispose (links untouched)

    Harness(const Universe &uu) : u(uu) {
        memset(&st, 0, sizeof(st));
        st.compare = u.cmp == CMP_INT ? set_compare_int : u.cmp == CMP_CHARP ? set_compare_charp
                   : u.cmp == CMP_VOIDP ? set_compare_voidp : set_compare_ptr;
        st.cleanup = elem_cleanup;
        g_scrub_cmp = u.cmp;
        g_cleanups.clear(); g_inset.clear(); g_fail.clear();
        // a NULL set is an empty set for find, lower bound, remove and clear (set_first / set_size take a real set)
        set_clear(NULL, 0); set_clear(NULL, 1);
        if (set_find(NULL, &probe) || set_lower(NULL, &probe) || set_remove(NULL, &probe, 0))
            g_fail = "an entry point treats a NULL set as non-empty";
    }
    ~Harness() {
        // free whatever is still allocated without going through the SUT
        if (u.cmp != CMP_PTR) for (auto &kv : nodes) free(kv.second);
        if (u.cmp != CMP_PTR) for (auto &kv : recycled) free(kv.second);
    }
    void fail(const std::string &m) { if (g_fail.empty()) g_fail = m; }

    // datum pointer for a lookup of key index k (not necessarily in the set)
    Elem probe;
    const void *datum(int k) {
        memset(&probe, 0, sizeof(probe));
        switch (u.cmp) {
        case CMP_INT: probe.k.i = u.ints[k]; return &probe;
        case CMP_CHARP: probe.k.s = u.strs[k].c_str(); return &probe;
        case CMP_VOIDP: probe.k.p = u.ptrs[k]; return &probe;
        default: return u.ptrs[k];   // CMP_PTR: the address itself is the key
        }
    }
    struct set_node *mknode(int k, int id) {
        struct set_node *n;
        if (u.cmp == CMP_PTR) {
            // the element's own address must equal the key: nodes are pre-placed in an arena
            n = set_node((void *)u.ptrs[k]);
            memset(n, 0, sizeof(*n) + sizeof(Elem));
        } else {
            n = set_node_alloc(sizeof(Elem));
        }
        Elem *e = (Elem *)set_node_data(n);
        e->id = id;
        switch (u.cmp) {
        case CMP_INT: e->k.i = u.ints[k]; break;
        case CMP_CHARP: e->k.s = u.strs[k].c_str(); break;
        case CMP_VOIDP: e->k.p = u.ptrs[k]; break;
        default: break;
        }
        return n;
    }
    int id_of(void *data) { return data ? ((Elem *)data)->id : 0; }

    void expect_cleanups(int id, int want, const char *ctx) {
        int got = g_cleanups.count(id) ? g_cleanups[id] : 0;
        if (got != want) {
            std::ostringstream o; o << ctx << ": element #" << id << " cleanup ran " << got << " time(s), expected " << want;
            fail(o.str());
        }
    }

    void apply(const Op &op_) {
        C.ops++;
        Op op = op_;
        // CMP_PTR keys are the elements' own addresses (arena slots): the SUT must never free them
        if (u.cmp == CMP_PTR) op.flag = 1;
        long long r = rank_of(u, op.key);
        switch (op.kind) {
        case 0: {
            if (u.cmp == CMP_PTR && model.count(r)) {
                // re-inserting the very same node is a documented misuse (asserts); skip
                break;
            }
            int id = next_id++;
            struct set_node *n = mknode(op.key, id);
            int old = model.count(r) ? model[r] : 0;
            if (!model.empty() && removed_any) interleaved = true;
            set_insert(&st, n);
            nodes[id] = n; id_key[id] = op.key;
            if (old) {
                C.replaced++;
                expect_cleanups(old, 1, "insert replacing an equal key");
                nodes.erase(old);   // freed by the SUT
            }
            model[r] = id;
            break;
        }
        case 1: {
            int old = model.count(r) ? model[r] : 0;
            g_cb_set = &st; g_cb_mode = 1; g_cb_member_seen = 0;
            // the datum may be a separate probe or - as module.c and iauth_core.c do - the stored element itself
            void *dat = (void *)datum(op.key);
            if (old && u.cmp != CMP_PTR && (op.key % 2) == 0 && nodes.count(old)) dat = set_node_data(nodes[old]);
            // "no_dispose" is a truth value: any non-zero int keeps the element
            static const int truthy[] = {1, 2, -1, 4, 0x100, 1, 1};
            int res = set_remove(&st, dat, op.flag ? truthy[(unsigned)op.key % 7] : 0);
            g_cb_mode = 0;
            if (g_cb_member_seen) { std::ostringstream o; o << "cleanup of element #" << g_cb_member_seen << " ran inside set_remove while set_find still reported its key as a member"; fail(o.str()); }
            if ((res != 0) != (old != 0)) { fail(std::string("remove returned ") + std::to_string(res) + " for a key that is " + (old ? "present" : "absent")); }
            if (old) {
                C.removes_hit++; removed_any = true;
                expect_cleanups(old, op.flag ? 0 : 1, op.flag ? "remove with no_dispose" : "remove with disposal");
                if (op.flag && u.cmp != CMP_PTR) {
                    int kidx = id_key[old];
                    if (recycled.count(kidx)) free(recycled[kidx]);
                    recycled[kidx] = nodes[old];       // the caller owns it again; links are left as they are
                }
                nodes.erase(old);
                model.erase(r);
            } else { absent = true; C.absent_lookup++; }
            break;
        }
        case 2: {
            void *d = set_find(&st, datum(op.key));
            int want = model.count(r) ? model[r] : 0;
            if (!want) { absent = true; C.absent_lookup++; }
            if (id_of(d) != want) { std::ostringstream o; o << "find(key#" << op.key << ") returned element #" << id_of(d) << ", model has #" << want; fail(o.str()); }
            break;
        }
        case 3: {
            C.lower_calls++;
            struct set_node *n = set_lower(&st, datum(op.key));
            auto it = model.lower_bound(r);
            int want = it == model.end() ? 0 : it->second;
            int got = n ? id_of(set_node_data(n)) : 0;
            if (!model.count(r)) { absent = true; }
            if (got != want) { std::ostringstream o; o << "lower(key#" << op.key << ") returned element #" << got << ", model has #" << want; fail(o.str()); }
            break;
        }
        case 4: {
            C.clears++;
            std::vector<int> ids; for (auto &kv : model) ids.push_back(kv.second);
            g_cb_set = &st; g_cb_mode = 2; g_cb_member_seen = 0;
            static const int truthy_c[] = {1, 2, -1, 4, 0x100, 1, 1};
            set_clear(&st, op.flag ? truthy_c[(unsigned)op.key % 7] : 0);
            g_cb_mode = 0;
            if (g_cb_member_seen) { std::ostringstream o; o << "cleanup of element #" << g_cb_member_seen << " ran inside set_clear while set_find still reported its key as a member"; fail(o.str()); }
            for (int id : ids) {
                expect_cleanups(id, op.flag ? 0 : 1, op.flag ? "clear with no_dispose" : "clear with disposal");
                if (op.flag && u.cmp != CMP_PTR) {
                    int kidx = id_key[id];
                    if (recycled.count(kidx)) free(recycled[kidx]);
                    recycled[kidx] = nodes[id];
                }
                nodes.erase(id);
            }
            model.clear();
            break;
        }
        case 5: break;   // iteration is part of every audit
        case 6: {
            // re-insert a node that was taken out with no_dispose (as config.c does when it splices nodes
            // between trees); its l/r/prev/next still hold whatever they held when it left the set
            if (u.cmp == CMP_PTR) break;
            int kidx = -1;
            for (auto &kv : recycled) { if (rank_of(u, kv.first) == r) { kidx = kv.first; break; } }
            if (kidx < 0) { if (recycled.empty()) break; kidx = recycled.begin()->first; r = rank_of(u, kidx); }
            struct set_node *n = recycled[kidx];
            recycled.erase(kidx);
            int id = next_id++;
            ((Elem *)set_node_data(n))->id = id;
            int old = model.count(r) ? model[r] : 0;
            set_insert(&st, n);
            nodes[id] = n; id_key[id] = kidx;
            if (old) { C.replaced++; expect_cleanups(old, 1, "reinsert replacing an equal key"); nodes.erase(old); }
            model[r] = id;
            C.recycled++;
            break;
        }
        }
        if ((int)model.size() > max_size) max_size = (int)model.size();
        audit();
        // elements still in the set must never have been cleaned up
        for (auto &kv : model) expect_cleanups(kv.second, 0, "element still in the set");
    }

    // -------- structural audit
    long walk(struct set_node *n, std::vector<struct set_node *> &order, int depth) {
        if (!n) return 0;
        if (depth > 100000) { fail("tree depth runaway (cycle?)"); return 0; }
        long c = walk(n->l, order, depth + 1);
        order.push_back(n);
        return c + 1 + walk(n->r, order, depth + 1);
    }
    void audit() {
        C.audits++;
        if (set_size(&st) != model.size()) { std::ostringstream o; o << "size " << set_size(&st) << " != model size " << model.size(); fail(o.str()); }
        std::vector<struct set_node *> order;
        long cnt = walk(st.root, order, 0);
        if (cnt != (long)model.size()) { std::ostringstream o; o << "tree has " << cnt << " nodes, model " << model.size(); fail(o.str()); return; }
        // in-order walk == model order
        size_t i = 0;
        for (auto &kv : model) {
            if (id_of(set_node_data(order[i])) != kv.second) { fail("in-order tree walk differs from sorted model (search-tree order broken)"); return; }
            i++;
        }
        // first / next chain
        struct set_node *n = set_first(&st);
        i = 0;
        for (; n && i <= order.size(); n = set_next(n), i++) {
            if (i >= order.size() || n != order[i]) { fail("next chain differs from in-order walk"); return; }
        }
        if (i != order.size()) { fail("next chain shorter than tree"); return; }
        // prev chain from the last
        if (!order.empty()) {
            if (order.front()->prev != NULL) fail("first element has a prev link");
            if (order.back()->next != NULL) fail("last element has a next link");
            n = order.back();
            for (long j = (long)order.size() - 1; j >= 0; j--, n = set_prev(n)) {
                if (n != order[j]) { fail("prev chain differs from reverse in-order walk"); return; }
            }
        } else if (set_first(&st) != NULL) fail("set_first non-null on empty set");
    }
    std::string shape() {   // canonical serialisation of the tree (preorder with keys)
        std::string s;
        std::function<void(struct set_node *)> f = [&](struct set_node *n) {
            if (!n) { s += '.'; return; }
            s += '('; s += std::to_string(id_key[id_of(set_node_data(n))]); f(n->l); f(n->r); s += ')';
        };
        f(st.root);
        return s;
    }
};

static std::string ops_to_text(const Universe &u, const std::vector<Op> &ops) {
    std::ostringstream o;
    o << "cmp " << cmp_names[u.cmp] << "\n" << "keys";
    for (size_t i = 0; i < u.size(); i++) {
        if (u.cmp == CMP_INT) o << " " << u.ints[i];
        else if (u.cmp == CMP_CHARP) o << " " << u.strs[i];
        else o << " " << (long)((char *)u.ptrs[i] - g_arena);
    }
    o << "\n";
    for (auto &op : ops) o << op_names[op.kind] << " " << op.key << " " << op.flag << "\n";
    return o.str();
}

static std::string g_last_fail_text, g_last_fail_msg;

static bool run_ops(const Universe &u, const std::vector<Op> &ops, bool count) {
    Harness h(u);
    for (auto &op : ops) {
        h.apply(op);
        if (!g_fail.empty()) break;
    }
    if (count) {
        C.cases++; C.per_cmp[u.cmp]++;
        bool nt = h.interleaved && h.max_size >= 3 && h.absent;
        if (nt) {
            size_t hh = std::hash<std::string>()(ops_to_text(u, ops));
            if (C.nt_hashes.insert(hh).second) C.nontrivial++;
        }
    }
    if (!g_fail.empty()) {
        g_last_fail_text = ops_to_text(u, ops);
        g_last_fail_msg = g_fail;
        return false;
    }
    return true;
}

// ---------------------------------------------------------------- universes
static Universe make_universe(Cmp cmp, const std::vector<int> &raw) {
    Universe u; u.cmp = cmp;
    static const int extremes[] = {INT_MIN, INT_MIN + 1, INT_MIN + 2, -2, -1, 0, 1, 2, INT_MAX - 2, INT_MAX - 1, INT_MAX,
                                   1 << 30, -(1 << 30), 1000000007, -1000000007};
    static const char *words[] = {"a", "A", "b", "B", "ab", "AB", "Ab", "abc", "ABD", "z", "Z", "", "m", "M", "iauth", "IAUTH", "Iauth_x", "iauth_x", "0", "_",
                                  // ASCII case folding only: [ \\ ] ^ are not the upper-case forms of { | } ~
                                  "chan[1]", "chan{1}", "a\\b", "a|b", "x^", "x~", "x]", "x}", "`", "@", "[", "{",
                                  // bytes above 0x7f compare as unsigned characters (strcasecmp in the C locale)
                                  "\xc3\xa9" "clair", "na\xef" "ve", "nab", "\xff", "z\x80", "zz", "\x80"};
    std::set<long long> seen;
    for (int r : raw) {
        switch (cmp) {
        case CMP_INT: {
            int v = (r & 1) ? extremes[(unsigned)(r >> 1) % (sizeof(extremes) / sizeof(extremes[0]))] : (r >> 1) % 200 - 100;
            u.ints.push_back(v); break;
        }
        case CMP_CHARP: u.strs.push_back(words[(unsigned)r % (sizeof(words) / sizeof(words[0]))]); break;
        case CMP_VOIDP: {
            // pointer keys are compared as addresses over their whole range, top bit included (never dereferenced)
            static const uintptr_t far[] = {1, 8, (uintptr_t)-1, (uintptr_t)-8, (uintptr_t)1 << 63, ((uintptr_t)1 << 63) - 8, ((uintptr_t)1 << 63) + 8, (uintptr_t)0x00007fffffffe000ULL};
            if ((r & 7) == 0) u.ptrs.push_back((void *)far[(unsigned)(r >> 3) % (sizeof(far) / sizeof(far[0]))]);
            else u.ptrs.push_back(g_arena + ((unsigned)r % 64) * 8);
            break;
        }
        case CMP_PTR: {
            // slots of sizeof(set_node)+sizeof(Elem) in the arena; key = data address
            size_t slot = sizeof(struct set_node) + sizeof(Elem);
            u.ptrs.push_back(g_arena + ((unsigned)r % (sizeof(g_arena) / slot)) * slot + sizeof(struct set_node)); break;
        }
        }
    }
    if (cmp == CMP_CHARP) { std::vector<long long> rk; for (size_t i = 0; i < u.strs.size(); i++) rk.push_back(rank_of(u, (int)i)); u.ranks = rk; }
    return u;
}

// ---------------------------------------------------------------- modes
static void print_json(const char *mode, bool ok, long states, const std::string &samples) {
    printf("{\"mode\":\"%s\",\"ok\":%s,\"cases\":%ld,\"ops\":%ld,\"nontrivial\":%ld,\"audits\":%ld,\"replaced\":%ld,"
           "\"absent_lookup\":%ld,\"removes_hit\":%ld,\"lower_calls\":%ld,\"clears\":%ld,\"recycled\":%ld,\"per_cmp\":{\"int\":%ld,\"charp\":%ld,\"voidp\":%ld,\"ptr\":%ld},"
           "\"states\":%ld,\"samples\":[%s]}\n",
           mode, ok ? "true" : "false", C.cases, C.ops, C.nontrivial, C.audits, C.replaced, C.absent_lookup, C.removes_hit,
           C.lower_calls, C.clears, C.recycled, C.per_cmp[0], C.per_cmp[1], C.per_cmp[2], C.per_cmp[3], states, samples.c_str());
}

static std::string json_escape(const std::string &s) {
    std::string o;
    for (char c : s) {
        unsigned char uc = (unsigned char)c;
        if (c == '"' || c == '\\') { o += '\\'; o += c; }
        else if (c == '\n') o += "\\n";
        else if (uc < 0x20 || uc >= 0x7f) { char b[8]; snprintf(b, sizeof b, "\\u%04x", uc); o += b; }     // keep the JSON pure ASCII
        else o += c;
    }
    return o;
}

static std::vector<std::string> g_samples;

static int mode_rc(int ncases, int maxsize, const char *failpath) {
    bool ok = rc::check("set behaves like std::map", [&]() {
        int cmp = *rc::gen::inRange(0, 4);
        int nkeys = *rc::gen::resize(64, rc::gen::inRange(4, 65));
        std::vector<int> raw = *rc::gen::resize(64, rc::gen::container<std::vector<int>>(nkeys, rc::gen::inRange(0, 1 << 20)));
        Universe u = make_universe((Cmp)cmp, raw);
        int nk = (int)u.size();
        auto opgen = rc::gen::map(rc::gen::tuple(rc::gen::weightedElement<int>({{8, 0}, {5, 1}, {4, 2}, {4, 3}, {1, 4}, {1, 5}, {2, 6}}),
                                                 rc::gen::inRange(0, nk), rc::gen::inRange(0, 4)),
                                  [](const std::tuple<int, int, int> &t) { return Op{std::get<0>(t), std::get<1>(t), std::get<2>(t) == 0 ? 1 : 0}; });
        std::vector<Op> ops = *rc::gen::container<std::vector<Op>>(opgen);
        bool res = run_ops(u, ops, true);
        if (g_samples.size() < 3 && ops.size() > 6 && C.cases % 97 == 3) g_samples.push_back(ops_to_text(u, ops));
        if (!res) RC_FAIL(g_last_fail_msg);
    });
    if (!ok && failpath) {
        std::ofstream f(failpath);
        f << g_last_fail_text << "# " << g_last_fail_msg << "\n";
    }
    std::string s;
    for (auto &x : g_samples) { if (!s.empty()) s += ","; s += "\"" + json_escape(x) + "\""; }
    print_json("rc", ok, 0, s);
    (void)ncases; (void)maxsize;
    return ok ? 0 : 1;
}

// exhaustive: all tree shapes reachable over nkeys storable keys (odd values) with gap keys (even)
static int mode_bfs(int nkeys, const char *failpath) {
    Universe u; u.cmp = CMP_INT;
    for (int i = 0; i <= 2 * nkeys; i++) u.ints.push_back(i);   // odd = storable, even = gap
    std::map<std::string, std::vector<Op>> seen;
    std::deque<std::string> queue;
    std::vector<Op> empty;
    std::string s0 = ".";
    seen[s0] = empty; queue.push_back(s0);
    long transitions = 0;
    bool ok = true;
    std::vector<Op> candidates;
    for (int k = 1; k <= 2 * nkeys; k += 2) { candidates.push_back({0, k, 0}); candidates.push_back({1, k, 0}); candidates.push_back({1, k, 1}); }
    for (int k = 0; k <= 2 * nkeys; k++) { candidates.push_back({2, k, 0}); candidates.push_back({3, k, 0}); }
    candidates.push_back({4, 0, 0}); candidates.push_back({4, 0, 1});
    for (int k = 1; k <= 2 * nkeys; k += 2) candidates.push_back({6, k, 0});
    while (!queue.empty() && ok) {
        std::string cur = queue.front(); queue.pop_front();
        std::vector<Op> path = seen[cur];
        for (auto &op : candidates) {
            std::vector<Op> p2 = path; p2.push_back(op);
            Harness h(u);
            for (auto &o : p2) { h.apply(o); if (!g_fail.empty()) break; }
            transitions++;
            C.cases++;
            if (!g_fail.empty()) {
                g_last_fail_text = ops_to_text(u, p2); g_last_fail_msg = g_fail; ok = false; break;
            }
            std::string sh = h.shape();
            if (!seen.count(sh)) { seen[sh] = p2; queue.push_back(sh); if (g_samples.size() < 3 && seen.size() % 700 == 5) g_samples.push_back(ops_to_text(u, p2)); }
        }
    }
    if (!ok && failpath) { std::ofstream f(failpath); f << g_last_fail_text << "# " << g_last_fail_msg << "\n"; }
    C.nontrivial = (long)seen.size();
    std::string s;
    for (auto &x : g_samples) { if (!s.empty()) s += ","; s += "\"" + json_escape(x) + "\""; }
    print_json("bfs", ok, (long)seen.size(), s);
    fprintf(stderr, "bfs: %zu states, %ld transitions\n", seen.size(), transitions);
    return ok ? 0 : 1;
}

// deterministic: long monotone runs (the splay tree degenerates into a spine of that depth), operations at the far end,
// and string keys that agree on their first 256+ characters
static int mode_spine(const char *failpath) {
    bool ok = true;
    static const int sizes[] = {65, 129, 300, 1000};
    for (int cmpi = 0; cmpi < 2 && ok; cmpi++) for (int si = 0; si < 4 && ok; si++) for (int dir = 0; dir < 2 && ok; dir++) {
        int N = sizes[si];
        if (cmpi == 1 && N > 300) continue;
        Universe u; u.cmp = cmpi == 0 ? CMP_INT : CMP_CHARP;
        for (int i = 0; i < N; i++) {
            if (cmpi == 0) u.ints.push_back(i * 3 - 7);
            else { char b[16]; snprintf(b, sizeof b, "%04d", i); u.strs.push_back(std::string(270, i % 2 ? 'q' : 'Q') + b); }   // differ only beyond 270 characters
        }
        if (cmpi == 1) { std::vector<long long> rk; for (size_t i = 0; i < u.strs.size(); i++) rk.push_back(rank_of(u, (int)i)); u.ranks = rk; }
        std::vector<Op> ops;
        auto K = [&](int i) { return dir ? N - 1 - i : i; };
        for (int i = 0; i < N; i++) ops.push_back({0, K(i), 0});
        int far = K(0), near = K(N - 1);
        ops.push_back({2, far, 0}); ops.push_back({3, far, 0});
        for (int i = 0; i < N; i++) ops.push_back({2, K(N - 1 - i), 0});       // sweep back: spine in the other direction
        ops.push_back({0, near, 0});                                            // equal key at the (now) far end: must replace
        ops.push_back({1, near, 0}); ops.push_back({0, near, 0});
        for (int i = 0; i < N; i++) ops.push_back({2, K(i), 0});
        ops.push_back({1, far, 1}); ops.push_back({6, far, 0});
        for (int i = 0; i < N; i += 3) ops.push_back({1, K(i), 0});
        for (int i = 0; i < N; i += 7) ops.push_back({3, K(i), 0});
        ops.push_back({4, 0, 0});
        bool res = run_ops(u, ops, true);
        C.nontrivial++;
        if (!res) {
            ok = false;
            if (failpath) { std::ofstream f(failpath); f << g_last_fail_text << "# " << g_last_fail_msg << "\n"; }
        }
    }
    print_json("spine", ok, 0, "");
    return ok ? 0 : 1;
}

static int mode_replay(const char *path) {
    std::ifstream f(path);
    std::string line, cmpname;
    Universe u; std::vector<Op> ops;
    while (std::getline(f, line)) {
        if (line.empty() || line[0] == '#') continue;
        std::istringstream is(line); std::string w; is >> w;
        if (w == "cmp") { is >> cmpname; for (int i = 0; i < 4; i++) if (cmpname == cmp_names[i]) u.cmp = (Cmp)i; }
        else if (w == "keys") {
            if (u.cmp == CMP_INT) { long v; while (is >> v) u.ints.push_back((int)v); }
            else if (u.cmp == CMP_CHARP) { std::string rest; std::getline(is, rest); std::istringstream rs(rest); std::string t;
                // keys are space separated; an empty key is written as two adjacent spaces
                size_t pos = 1; while (pos <= rest.size()) { size_t e = rest.find(' ', pos); if (e == std::string::npos) e = rest.size(); u.strs.push_back(rest.substr(pos, e - pos)); pos = e + 1; } }
            else { long v; while (is >> v) u.ptrs.push_back(g_arena + v); }
        } else {
            for (int i = 0; i < 7; i++) if (w == op_names[i]) { Op o; o.kind = i; is >> o.key >> o.flag; ops.push_back(o); }
        }
    }
    bool ok = run_ops(u, ops, true);
    if (!ok) printf("FAIL: %s\n", g_last_fail_msg.c_str());
    print_json("replay", ok, 0, "");
    return ok ? 0 : 1;
}

int main(int argc, char **argv) {
    if (argc >= 2 && !strcmp(argv[1], "rc")) return mode_rc(argc > 2 ? atoi(argv[2]) : 100, argc > 3 ? atoi(argv[3]) : 100, argc > 4 ? argv[4] : NULL);
    if (argc >= 3 && !strcmp(argv[1], "bfs")) return mode_bfs(atoi(argv[2]), argc > 3 ? argv[3] : NULL);
    if (argc >= 2 && !strcmp(argv[1], "spine")) return mode_spine(argc > 2 ? argv[2] : NULL);
    if (argc >= 3 && !strcmp(argv[1], "replay")) return mode_replay(argv[2]);
    fprintf(stderr, "usage: set_h rc|bfs|replay ...\n");
    return 2;
}
