/* E-mod stub module.  Copies of this one shared object are installed as
 * m0.so .. m5.so; each reads the dependency graph from $VERIF_GRAPH
 * ("m0:m1,m2;m1:m3;...") and appends constructor / post-init / destructor
 * events to the file named by $VERIF_EVLOG. */
#define _GNU_SOURCE
#include <dlfcn.h>
#include <fcntl.h>
#include <stdio.h>
#include <stdlib.h>
#include <string.h>
#include <unistd.h>

struct module;
void module_depends(const char *name, ...);
void module_antidepends(const char *name, ...);
void module_is_backend(void);

/* names listed for `name` in a "a:b,c;d:e" style graph text */
static int listed(const char *g, const char *name, char out[][64], int max)
{
    int n = 0;
    size_t len = strlen(name);
    while (g && *g) {
        const char *semi = strchr(g, ';');
        size_t seg = semi ? (size_t)(semi - g) : strlen(g);
        if (seg > len && !strncmp(g, name, len) && g[len] == ':') {
            const char *p = g + len + 1, *end = g + seg;
            while (p < end && n < max) {
                const char *c = memchr(p, ',', end - p);
                size_t l = c ? (size_t)(c - p) : (size_t)(end - p);
                if (l > 0 && l < 64) {
                    memcpy(out[n], p, l);
                    out[n][l] = '\0';
                    n++;
                }
                p += l + 1;
            }
        }
        g = semi ? semi + 1 : NULL;
    }
    return n;
}

static char myname[64];

static void ev(const char *what)
{
    const char *path = getenv("VERIF_EVLOG");
    char buf[160];
    int fd, n;
    if (!path)
        return;
    fd = open(path, O_WRONLY | O_APPEND | O_CREAT, 0644);
    if (fd < 0)
        return;
    n = snprintf(buf, sizeof(buf), "%s %s\n", what, myname);
    if (write(fd, buf, n) != n) { /* ignore */ }
    close(fd);
}

#ifndef NO_CTOR
void module_constructor(const char name[])
{
    static char deps[8][64], anti[8][64], be[8][64];
    int ndeps, nanti, nbe, i;

    snprintf(myname, sizeof(myname), "%s", name);
    ev("ctor_begin");
    ndeps = listed(getenv("VERIF_GRAPH"), name, deps, 8);
    nanti = listed(getenv("VERIF_ANTI"), name, anti, 8);       /* modules this one is a back-end provider for */
    nbe = listed(getenv("VERIF_BACKEND"), "core", be, 8);      /* "core:m1,m2": back-ends of the core itself */
    for (i = 0; i < ndeps; i++)
        module_depends(deps[i], NULL);
    for (i = 0; i < nanti; i++)
        module_antidepends(anti[i], NULL);
    for (i = 0; i < nbe; i++)
        if (!strcmp(be[i], name))
            module_is_backend();
    ev("ctor_end");
}
#else
/* variant without a constructor: it cannot know its name, so it reads it from the
 * file name it was loaded as (dladdr) when one of the other entry points runs */
static void learn_name(void)
{
    Dl_info di;
    if (!myname[0] && dladdr((void *)learn_name, &di) && di.dli_fname) {
        const char *b = strrchr(di.dli_fname, '/');
        snprintf(myname, sizeof(myname), "%s", b ? b + 1 : di.dli_fname);
        if (strlen(myname) > 3)
            myname[strlen(myname) - 3] = '\0';   /* strip ".so" */
    }
}
#endif

#ifdef PROVIDES_FN
/* variant "provides": exports a function for the variant "uses" (modules are opened RTLD_GLOBAL) */
int verif_provided_fn(void) { return 42; }
#endif
#ifdef CALLS_DEP
int verif_provided_fn(void);
#endif

#ifndef NO_POSTINIT
void module_post_init(struct module *self)
{
    (void)self;
#ifdef CALLS_DEP
    /* variant "uses": calls into the module it depends on - resolvable only once that module is loaded, which the
     * loader guarantees before post-init, not before this file is opened */
    if (verif_provided_fn() != 42)
        ev("bad_call");
#endif
#ifdef NO_CTOR
    learn_name();
#endif
    ev("post_init");
}
#endif

#ifndef NO_DTOR
void module_destructor(void)
{
#ifdef NO_CTOR
    learn_name();
#endif
    ev("dtor");
}
#endif
