/* E-log harness: real src/log.c + config.c (+ set.c common.c bitset.c), driven
 * by commands on stdin:
 *   load <file>                      -> "L <rc>"
 *   emit <facility> <sev 0..5> <tok> -> "ok"   (fatal severities in a forked child)
 *   quit
 */
#include "src/common.h"
#include <sys/wait.h>

struct event_base *ev_base;
struct evdns_base *ev_dns;
int clean_exit;
void module_close_all(void) {}

int main(void)
{
    char line[8192];
    ctype_init();
    log_core = log_type_register("core", NULL);
    conf_get_root();
    log_set_verbosity(0);
    while (fgets(line, sizeof(line), stdin)) {
        char *argv[8];
        int argc = 0;
        char *tok, *save;
        for (tok = strtok_r(line, " \n", &save); tok && argc < 8; tok = strtok_r(NULL, " \n", &save))
            argv[argc++] = tok;
        if (!argc)
            continue;
        if (!strcmp(argv[0], "load") && argc >= 2) {
            printf("L %d\n", conf_read(argv[1]));
        } else if (!strcmp(argv[0], "emit") && argc >= 4) {
            struct log_type *lt = log_type_register(argv[1], NULL);
            int sev = atoi(argv[2]);
            if (sev == LOG_FATAL) {
                pid_t pid;
                fflush(stdout);
                pid = fork();
                if (pid == 0) {
                    log_message(lt, sev, "%s", argv[3]);
                    _exit(0);   /* not reached: LOG_FATAL terminates with status 1 */
                } else {
                    int st = 0;
                    waitpid(pid, &st, 0);
                    printf("ok fatal-exit=%d\n", WIFEXITED(st) ? WEXITSTATUS(st) : -1);
                }
            } else {
                log_message(lt, sev, "%s", argv[3]);
                puts("ok");
            }
        } else if (!strcmp(argv[0], "quit")) {
            break;
        } else {
            puts("?");
        }
        fflush(stdout);
    }
    fflush(stdout);
    call_exit_funcs();
    return 0;
}
