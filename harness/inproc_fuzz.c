/* E-inproc (C08, thorough tier): libFuzzer target that drives the daemon's real
 * input handler in-process.
 *
 * iauth_core.c is #included so that the static reader iauth_read() and the
 * static request table can be reached and reset between iterations; the other
 * module sources are compiled separately with their module_constructor /
 * module_destructor symbols renamed.  The fuzz input is decoded into a list of
 * lines (templates with fuzz-chosen parameters, or raw bytes) plus two
 * chunkings; oracle 1 = no sanitizer report / crash, oracle 2 = the output is
 * the same for both chunkings.
 */
#include <sys/socket.h>
#include <sys/stat.h>
#include <fcntl.h>

#define module_constructor core_module_constructor
#define module_destructor core_module_destructor
#include "modules/iauth_core.c"
#undef module_constructor
#undef module_destructor

void xquery_module_constructor(const char name[]);
void class_module_constructor(const char name[]);

struct event_base *ev_base;
struct evdns_base *ev_dns;
int clean_exit;

/* module.c is not linked: the modules only need this one entry point */
void module_depends(const char *name, ...) { (void)name; }
void module_close_all(void) {}

static int sp[2];
static int out_fd = -1;
static char out_path[512];
static int initialised;

static const char *CONF =
    "iauth { timeout 0; };\n"
    "iauth_xquery { \"login.ex\" login; \"ipr.ex\" login-ipr; \"bot.ex\" dronecheck; \"comb.ex\" combined; };\n"
    "iauth_class { r1 { class trusted; hostname \"*.example.org\"; address \"10.0.0.0/8\" }; r2 { account \"al*\"; trust_username true };\n"
    "  r3 { xreply_ok \"bot.ex\"; class c3 }; r9 { class dflt }; };\n"
    "logs { };\n";

static void init_once(void)
{
    char dir[400], conf_path[512];
    const char *base = getenv("VERIF_INPROC_DIR");
    FILE *f;

    snprintf(dir, sizeof(dir), "%s/inproc-%d", base ? base : "/verif/build/tmp", (int)getpid());
    mkdir(dir, 0755);
    snprintf(conf_path, sizeof(conf_path), "%s/iauthd.conf", dir);
    snprintf(out_path, sizeof(out_path), "%s/stdout.txt", dir);
    f = fopen(conf_path, "w");
    fputs(CONF, f);
    fclose(f);
    if (!freopen(out_path, "w", stdout))
        abort();
    out_fd = open(out_path, O_RDONLY);

    ctype_init();
    ev_base = event_base_new();
    log_core = log_type_register("core", NULL);
    log_set_verbosity(0);
    if (conf_read(conf_path))
        abort();
    core_module_constructor("iauth");
    xquery_module_constructor("iauth_xquery");
    class_module_constructor("iauth_class");
    /* stdin is not ours: drop the persistent read event the constructor added */
    event_del(iauth_ev);
    /* run the start-up timer (banner, O line, calc_iauth_flags) */
    event_base_loop(ev_base, EVLOOP_NONBLOCK);
    if (socketpair(AF_UNIX, SOCK_STREAM, 0, sp))
        abort();
    fcntl(sp[0], F_SETFL, O_NONBLOCK);
    fcntl(sp[1], F_SETFL, O_NONBLOCK);
    initialised = 1;
}

static void reset_state(void)
{
    set_clear(iauth_reqs, 0);
    iauth_serial = 0;
    memset(&stats, 0, sizeof(stats));
    evbuffer_drain(iauth_in, evbuffer_get_length(iauth_in));
    fflush(stdout);
    if (ftruncate(fileno(stdout), 0)) { /* ignore */ }
    fseek(stdout, 0, SEEK_SET);
}

static size_t run_stream(const uint8_t *data, size_t len, const uint8_t *chunks, size_t nchunks, char *out, size_t outsize)
{
    size_t pos = 0, ci = 0;
    ssize_t n;

    reset_state();
    while (pos < len) {
        size_t c = nchunks ? (size_t)chunks[ci++ % nchunks] * 16 + 1 : 4096;
        if (c > len - pos)
            c = len - pos;
        if (c > 4096)
            c = 4096;
        if (write(sp[1], data + pos, c) != (ssize_t)c)
            abort();
        pos += c;
        iauth_read(sp[0], EV_READ, iauth_in);
    }
    fflush(stdout);
    n = pread(out_fd, out, outsize - 1, 0);
    if (n < 0)
        n = 0;
    out[n] = '\0';
    return (size_t)n;
}

/* ---- structured decode: bytes -> lines */
static const char *TEMPLATES[] = {
    "%d C 10.1.2.3 1234 127.0.0.1 6667", "%d C 2001:db8:0:0:0:0:0:1 65535 0::1 6667", "%d N host.example.org", "%d d", "%d u ident",
    "%d u", "%d n Nick", "%d U user :real name", "%d U ~user :x", "%d P :+x! alice secret", "%d P :-! a b", "%d P :plain", "%d P :reply text",
    "%d H", "%d D", "%d T", "%d ! timeout", "-1 X login.ex %x_%x :OK alice:1", "-1 X login.ex %x_%x :OK", "-1 X ipr.ex %x_%x :MORE say friend",
    "-1 X bot.ex %x_%x :NO go away", "-1 X comb.ex %x_%x :AGAIN later", "-1 x login.ex %x_%x :gone", "-1 X bot.ex %x_%x :OK", "-1 X comb.ex %x_%x :OK bob",
    "-1 X ipr.ex %x_%x :OK carol:2", "%d N", "%d P", "%d n", "%d U onlyuser", "%d", "", "%d E a :b", "-1 M srv 10", "-1 ? config", "%d C 1.2.3.4",
    "%d C 2001:db8::/32 1000 0::1 6667", "%d C 10.0.0.0/8 1 10.* 2", "%d C 1:2:* 1 * 2", "%d C 1::/128 5 1:2:3:4:5:6:7:1.2.3.4 6", "%d C 1.2/16 1 1:2:3:4:5:6:1.2.3.4/128 2",
    "%d Z junk", "-1 X nobody.ex %x_%x :OK", "-1 X login.ex zz :OK", "-1 X", "%d C 1.2.3.4.5 1 ::: 2", "%d U a b c d e f g h i j k l m n o p q r",
};
#define NTEMPL (sizeof(TEMPLATES) / sizeof(TEMPLATES[0]))

int LLVMFuzzerTestOneInput(const uint8_t *data, size_t size)
{
    static char stream[1 << 16];
    static char out1[1 << 18], out2[1 << 18];
    size_t slen = 0, i = 0, n1, n2;
    const uint8_t *chunks;
    size_t nchunks;

    if (!initialised)
        init_once();
    if (size < 4)
        return 0;
    nchunks = data[0] % 8;
    if (size < 1 + nchunks + 2)
        return 0;
    chunks = data + 1;
    i = 1 + nchunks;
    while (i < size && slen + 3000 < sizeof(stream)) {
        uint8_t op = data[i++];
        if (op >= 240 && i < size) {
            /* an awaited-looking reply / password whose text is far longer than any output buffer */
            static const char *LONGS[] = {"-1 X bot.ex %x_%x :NO ", "-1 X ipr.ex %x_%x :MORE ", "-1 X login.ex %x_%x :AGAIN ", "-1 X comb.ex %x_%x :OK "};
            int id = data[i++] % 4 + 1;
            unsigned ser = (i < size) ? data[i++] % 6 : 1;
            size_t fill = 900 + ((i < size) ? data[i++] : 0) * 5, k;
            slen += snprintf(stream + slen, 64, LONGS[op % 4], id, ser);
            for (k = 0; k < fill && slen + 8 < sizeof(stream); k++)
                stream[slen++] = 'A' + (char)(k % 23);
        } else if (op >= 225 && i < size) {
            /* one over-long no-op line: head, a long run of blanks, and a tail that would be a line of its own */
            static const char *TAILS[] = {"%d D", "%d H", "%d T", "%d P :+x! a b", "%d C 9.9.9.9 9 127.0.0.1 6667"};
            int id = data[i++] % 4 + 1;
            size_t fill = 3000 + ((i < size) ? data[i++] : 0) * 70, k;
            if (slen + fill + 3100 >= sizeof(stream))
                break;
            slen += snprintf(stream + slen, 64, "%s", (op & 1) ? "-1 E " : "-1 M ");
            for (k = 0; k < fill; k++)
                stream[slen++] = (k % 97 == 96) ? '\t' : ' ';
            slen += snprintf(stream + slen, 64, TAILS[op % 5], id);
        } else if (op < 200) {
            const char *t = TEMPLATES[op % NTEMPL];
            int id = (i < size) ? data[i++] % 4 + 1 : 1;
            unsigned ser = (i < size) ? data[i++] % 6 : 1;
            if (strstr(t, "%x_%x"))
                slen += snprintf(stream + slen, 512, t, id, ser);
            else if (strstr(t, "%d"))
                slen += snprintf(stream + slen, 512, t, id);
            else
                slen += snprintf(stream + slen, 512, "%s", t);
        } else {
            /* raw bytes up to the next 0xff */
            size_t k = 0;
            while (i < size && data[i] != 0xff && k < 300) {
                if (data[i] != '\n')
                    stream[slen++] = (char)data[i];
                i++; k++;
            }
            i++;
        }
        if (op % 7 == 3)
            stream[slen++] = '\r';
        stream[slen++] = '\n';
    }
    if (size && (data[size - 1] & 1) && slen)
        slen--;     /* truncated final line */

    n1 = run_stream((const uint8_t *)stream, slen, NULL, 0, out1, sizeof(out1));
    n2 = run_stream((const uint8_t *)stream, slen, chunks, nchunks, out2, sizeof(out2));
    if (n1 != n2 || memcmp(out1, out2, n1)) {
        fprintf(stderr, "ORACLE-FAIL: output depends on how the stream is segmented into reads\n--- whole:\n%s--- chunked:\n%s", out1, out2);
        __builtin_trap();
    }
    reset_state();
    return 0;
}
