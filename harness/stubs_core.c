/* Stubs for the few core symbols that src/common.c needs when it is linked
 * into a harness without log.c / module.c. */
#include <stdarg.h>
struct log_type;
struct log_type *log_core;
void log_message(struct log_type *type, int sev, const char *format, ...) { (void)type; (void)sev; (void)format; }
void module_close_all(void) {}
