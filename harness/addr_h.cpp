// E-addr (C12, C13): exhaustive enumerators + rapidcheck random cases for
// irc_ntop / irc_pton / irc_check_mask from /repo/modules/iauth_misc.c.
// Oracles: inet_pton / bit-level reference.  Memory safety via ASan with
// exact-size heap blocks.  Last stdout line is a JSON summary.
#ifndef ADDR_FUZZ
#include <rapidcheck.h>
#endif
#include <arpa/inet.h>
#include <map>
#include <cstdint>
#include <cstdio>
#include <cstdlib>
#include <cstring>
#include <fstream>
#include <functional>
#include <set>
#include <sstream>
#include <string>
#include <vector>

extern "C" {
typedef union irc_inaddr {
    uint16_t in6[8];
    uint8_t in6_8[16];
    uint16_t in6_16[8];
    uint32_t in6_32[4];
} irc_inaddr;
unsigned int irc_ntop(char *output, unsigned int out_size, const irc_inaddr *addr);
unsigned int irc_pton(irc_inaddr *addr, unsigned int *bits, const char *input, int allow_trailing);
unsigned int irc_check_mask(const irc_inaddr *check, const irc_inaddr *mask, unsigned int bits);
void ctype_init(void);
extern const unsigned int verif_irc_ntop_max;   /* IRC_NTOP_MAX from modules/iauth.h */
}

static std::string g_fail_case, g_fail_msg;
static long n_cases = 0, n_nontrivial = 0;
static std::vector<std::string> g_samples;
static std::set<std::string> g_classes_seen;
static std::map<std::string, long> g_classes;

static void cls(const char *c) { g_classes[c]++; }

static std::string hexgroups(const uint16_t g[8]) {
    char b[64];
    snprintf(b, sizeof b, "%x:%x:%x:%x:%x:%x:%x:%x", g[0], g[1], g[2], g[3], g[4], g[5], g[6], g[7]);
    return b;
}
static void to_addr(const uint16_t g[8], irc_inaddr *a) { for (int i = 0; i < 8; i++) a->in6[i] = htons(g[i]); }
static void from_addr(const irc_inaddr *a, uint16_t g[8]) { for (int i = 0; i < 8; i++) g[i] = ntohs(a->in6[i]); }

// canon: IPv4-compatible (::a.b.c.d with a.b != 0, as the daemon's is_ipv4 test sees it) -> IPv4-mapped
static void canon(uint16_t g[8]) {
    if (!g[0] && !g[1] && !g[2] && !g[3] && !g[4] && g[5] == 0 && g[6] != 0) g[5] = 0xffff;
}

static bool fail(const std::string &c, const std::string &m) {
    if (g_fail_msg.empty()) { g_fail_case = c; g_fail_msg = m; }
    return false;
}

// ---------------------------------------------------------------- C12 oracle
static bool check_ntop(const uint16_t g_in[8]) {
    n_cases++;
    std::string id = "ntop " + hexgroups(g_in);
    irc_inaddr *a = (irc_inaddr *)malloc(sizeof(irc_inaddr));   // exact-size heap blocks for ASan
    to_addr(g_in, a);
    const unsigned NMAX = verif_irc_ntop_max;          // the documented buffer size
    char *buf = (char *)malloc(NMAX);
    memset(buf, 'Z', NMAX);
    unsigned n = irc_ntop(buf, NMAX, a);
    bool ok = true;
    uint16_t want[8]; memcpy(want, g_in, sizeof want); canon(want);
    if (n >= NMAX || memchr(buf, 0, NMAX) == NULL || strlen(buf) != n) ok = fail(id, "irc_ntop returned " + std::to_string(n) + " for a buffer of IRC_NTOP_MAX=" + std::to_string(NMAX) + " bytes but the text does not fit / has another length");
    else if (buf[0] == ':') ok = fail(id, std::string("text begins with ':' : ") + buf);
    else {
        // standard library parser
        uint16_t got[8];
        unsigned char raw[16];
        bool std_ok;
        if (strchr(buf, ':')) { std_ok = inet_pton(AF_INET6, buf, raw) == 1; }
        else { unsigned char v4[4]; std_ok = inet_pton(AF_INET, buf, v4) == 1; memset(raw, 0, 16); raw[10] = raw[11] = 0xff; memcpy(raw + 12, v4, 4); }
        if (!std_ok) ok = fail(id, std::string("inet_pton rejects the text '") + buf + "'");
        else {
            for (int i = 0; i < 8; i++) got[i] = (raw[2 * i] << 8) | raw[2 * i + 1];
            if (memcmp(got, want, sizeof got)) ok = fail(id, std::string("text '") + buf + "' denotes " + hexgroups(got) + " (inet_pton), expected " + hexgroups(want));
        }
        if (ok) {
            irc_inaddr *b = (irc_inaddr *)malloc(sizeof(irc_inaddr));
            char *exact = (char *)malloc(n + 1); memcpy(exact, buf, n + 1);
            unsigned m = irc_pton(b, NULL, exact, 0);
            uint16_t g2[8]; from_addr(b, g2);
            if (m != n) ok = fail(id, std::string("irc_pton returns ") + std::to_string(m) + " for its own text '" + buf + "' of length " + std::to_string(n));
            else if (memcmp(g2, want, sizeof g2)) ok = fail(id, std::string("irc_pton reads '") + buf + "' as " + hexgroups(g2) + ", expected " + hexgroups(want));
            else {
                // idempotence of print o parse
                char *buf2 = (char *)malloc(NMAX);
                unsigned n2 = irc_ntop(buf2, NMAX, b);
                if (n2 != n || strcmp(buf2, buf)) ok = fail(id, std::string("print(parse(print)) = '") + buf2 + "' differs from '" + buf + "'");
                free(buf2);
            }
            free(b); free(exact);
        }
    }
    free(buf); free(a);
    return ok;
}

// pattern space: each group zero / 1 / 2 / 3 / 4 hex digits
static const uint16_t cls_lo[5] = {0, 0x1, 0x10, 0x100, 0x1000}, cls_hi[5] = {0, 0xf, 0xff, 0xfff, 0xffff};
static uint64_t rng_state = 88172645463325252ULL;
static uint64_t xrand() { rng_state ^= rng_state << 13; rng_state ^= rng_state >> 7; rng_state ^= rng_state << 17; return rng_state; }

static bool mode_ntop_patterns(int shard, int nshards) {
    // exhaustive over 5^8 patterns; values: min, max, and a value derived from the pattern index (not a free RNG)
    long total = 390625;
    for (long p = shard; p < total; p += nshards) {
        int c[8]; long q = p;
        int zeros = 0, runs = 0; bool inrun = false;
        for (int i = 0; i < 8; i++) { c[i] = q % 5; q /= 5; }
        for (int i = 0; i < 8; i++) { if (c[i] == 0) { zeros++; if (!inrun) { runs++; inrun = true; } } else inrun = false; }
        for (int variant = 0; variant < 3; variant++) {
            uint16_t g[8];
            for (int i = 0; i < 8; i++) {
                if (variant == 0) g[i] = cls_lo[c[i]];
                else if (variant == 1) g[i] = cls_hi[c[i]];
                else { uint32_t span = cls_hi[c[i]] - cls_lo[c[i]] + 1; g[i] = cls_lo[c[i]] + (uint32_t)((p * 2654435761u + i * 40503u) % span); }
            }
            if (!check_ntop(g)) return false;
            if (runs >= 2) n_nontrivial++;
        }
        if (runs >= 2) cls("patterns_with_two_or_more_zero_runs"); else cls("patterns_other");
        if (g_samples.size() < 3 && p % 131071 == 7 + shard) { uint16_t g[8]; for (int i = 0; i < 8; i++) g[i] = cls_hi[c[i]]; g_samples.push_back("ntop " + hexgroups(g)); }
    }
    return true;
}

static bool mode_ntop_v4() {
    static const int oct[] = {0, 1, 9, 10, 99, 100, 127, 128, 199, 200, 254, 255};
    const int NO = sizeof(oct) / sizeof(oct[0]);
    for (int hi = 0; hi < 3; hi++)           // g[5] = 0 (compatible), 0xffff (mapped), 1 (neither)
        for (int a = 0; a < NO; a++) for (int b = 0; b < NO; b++) for (int c = 0; c < NO; c++) for (int d = 0; d < NO; d++) {
            uint16_t g[8] = {0, 0, 0, 0, 0, (uint16_t)(hi == 0 ? 0 : hi == 1 ? 0xffff : 1), (uint16_t)((oct[a] << 8) | oct[b]), (uint16_t)((oct[c] << 8) | oct[d])};
            if (!check_ntop(g)) return false;
            n_nontrivial++;
        }
    cls("ipv4_shapes");
    g_samples.push_back("ntop 0:0:0:0:0:ffff:7f00:1");
    // addresses under prefixes that some printers give a notation of their own (NAT64 64:ff9b::/96, 6to4, Teredo,
    // link-local, multicast): here they are ordinary IPv6 addresses, whatever the groups after the prefix hold
    static const uint16_t pre[][2] = {{0x64, 0xff9b}, {0x64, 0xff9a}, {0x2002, 0xc000}, {0x2001, 0}, {0xfe80, 0}, {0xff02, 0}, {0x64, 0}};
    static const uint16_t mid[] = {0, 1, 0xffff};
    static const uint16_t low[] = {0, 0xc000, 0x0207, 0xffff};
    for (unsigned q = 0; q < sizeof(pre) / sizeof(pre[0]); q++)
        for (int a = 0; a < 3; a++) for (int b = 0; b < 3; b++) for (int c = 0; c < 3; c++) for (int d = 0; d < 3; d++)
            for (int e = 0; e < 4; e++) for (int f = 0; f < 4; f++) {
                uint16_t g[8] = {pre[q][0], pre[q][1], mid[a], mid[b], mid[c], mid[d], low[e], low[f]};
                if (!check_ntop(g)) return false;
                n_nontrivial++;
            }
    cls("well_known_prefixes");
    return true;
}

// ---------------------------------------------------------------- C13 oracles
static bool ref_mask(const uint16_t c[8], const uint16_t m[8], unsigned bits) {
    for (unsigned b = 0; b < bits && b < 128; b++) {
        unsigned gi = b / 16, sh = 15 - b % 16;
        if (((c[gi] >> sh) & 1) != ((m[gi] >> sh) & 1)) return false;
    }
    return true;
}
static bool check_mask(const uint16_t c[8], const uint16_t m[8], unsigned bits) {
    n_cases++;
    irc_inaddr *a = (irc_inaddr *)malloc(sizeof(irc_inaddr)), *b = (irc_inaddr *)malloc(sizeof(irc_inaddr));
    to_addr(c, a); to_addr(m, b);
    bool got = irc_check_mask(a, b, bits) != 0, want = ref_mask(c, m, bits);
    free(a); free(b);
    if (got != want) {
        return fail("mask " + hexgroups(c) + " " + hexgroups(m) + " " + std::to_string(bits),
                    std::string("irc_check_mask says ") + (got ? "match" : "no match") + ", leading " + std::to_string(bits) + " bits are " + (want ? "equal" : "different"));
    }
    return true;
}
static bool mode_mask_exhaust(int shard, int nshards) {
    // every group, every length 0..128, every 16-bit XOR difference in that group
    uint16_t base[8] = {0x2001, 0x0db8, 0xffff, 0x0000, 0x8000, 0x7fff, 0x1234, 0xabcd};
    for (int gi = shard; gi < 8; gi += nshards)
        for (unsigned bits = 0; bits <= 128; bits++)
            for (uint32_t diff = 0; diff < 65536; diff++) {
                uint16_t c[8]; memcpy(c, base, sizeof c); c[gi] ^= (uint16_t)diff;
                if (!check_mask(c, base, bits)) return false;
                // non-trivial: the difference straddles the prefix boundary inside this group
                if (diff && bits > 16u * gi && bits < 16u * (gi + 1)) n_nontrivial++;
            }
    cls("mask_group_x_length_x_diff");
    g_samples.push_back("mask 2001:db8:ffff:0:8000:7fff:1234:abcd 2001:db8:fffe:0:8000:7fff:1234:abcd 47");
    return true;
}

// run irc_pton on exact-size heap copies; returns length, fills out/bits
static unsigned pton_exact(const std::string &s, bool want_bits, int allow_trailing, uint16_t out[8], unsigned *bits) {
    char *in = (char *)malloc(s.size() + 1); memcpy(in, s.c_str(), s.size() + 1);
    irc_inaddr *a = (irc_inaddr *)malloc(sizeof(irc_inaddr)); memset(a, 0xAA, sizeof *a);
    unsigned *pb = want_bits ? (unsigned *)malloc(sizeof(unsigned)) : NULL;
    if (pb) *pb = 0xdeadbeef;
    unsigned n = irc_pton(a, pb, in, allow_trailing);
    from_addr(a, out);
    if (bits) *bits = pb ? *pb : 0xdeadbeef;
    free(in); free(a); free(pb);
    return n;
}

static std::string esc(const std::string &s) {
    std::string o; char b[8];
    for (unsigned char c : s) { if (c < 0x20 || c >= 0x7f || c == '\\') { snprintf(b, sizeof b, "\\x%02x", c); o += b; } else o += (char)c; }
    return o;
}

// grammar side: text with known (network, length)
static bool expect_mask(const std::string &text, const uint16_t net[8], unsigned bits, bool accept) {
    n_cases++; n_nontrivial++;
    uint16_t got[8]; unsigned gb;
    unsigned n = pton_exact(text, true, 0, got, &gb);
    std::string id = "ptonmask " + text;
    if (!accept) {
        if (n != 0) return fail(id, "out-of-range mask text accepted (returned " + std::to_string(n) + ")");
        return true;
    }
    if (n != text.size()) return fail(id, "returned " + std::to_string(n) + ", expected the string length " + std::to_string(text.size()));
    if (gb != bits) return fail(id, "prefix length " + std::to_string(gb) + ", expected " + std::to_string(bits));
    if (memcmp(got, net, sizeof got)) return fail(id, "network bits " + hexgroups(got) + ", expected " + hexgroups(net));
    return true;
}
static bool mode_pton_grammar() {
    static const int oct[] = {0, 1, 9, 10, 100, 127, 128, 199, 200, 255};
    const int NO = sizeof(oct) / sizeof(oct[0]);
    char b[128];
    // a.b.c.d/n for every n (0..32 accepted, 33..40 rejected) and boundary octets
    for (int a = 0; a < NO; a++) for (int c = 0; c < NO; c += 3) for (int n = 0; n <= 40; n++) {
        uint16_t net[8] = {0, 0, 0, 0, 0, 0xffff, (uint16_t)((oct[a] << 8) | oct[c]), (uint16_t)((oct[c] << 8) | oct[a])};
        snprintf(b, sizeof b, "%d.%d.%d.%d/%d", oct[a], oct[c], oct[c], oct[a], n);
        if (!expect_mask(b, net, 96 + n, n <= 32)) return false;
        // the prefix length is a decimal number: leading zeros do not change it
        if (n <= 32) {
            snprintf(b, sizeof b, "%d.%d.%d.%d/%02d", oct[a], oct[c], oct[c], oct[a], n);
            if (!expect_mask(b, net, 96 + n, true)) return false;
            snprintf(b, sizeof b, "%d.%d.%d.%d/%03d", oct[a], oct[c], oct[c], oct[a], n);
            if (!expect_mask(b, net, 96 + n, true)) return false;
        }
        // short form a.b/n
        uint16_t net2[8] = {0, 0, 0, 0, 0, 0xffff, (uint16_t)((oct[a] << 8) | oct[c]), 0};
        snprintf(b, sizeof b, "%d.%d/%d", oct[a], oct[c], n);
        if (!expect_mask(b, net2, 96 + n, n <= 32)) return false;
        // plain address: 128 bits
        if (n == 0) { snprintf(b, sizeof b, "%d.%d.%d.%d", oct[a], oct[c], oct[c], oct[a]); if (!expect_mask(b, net, 128, true)) return false; }
    }
    // wildcards a.*, a.b.*, a.b.c.*
    for (int a = 0; a < NO; a++) for (int c = 0; c < NO; c++) {
        uint16_t n1[8] = {0, 0, 0, 0, 0, 0xffff, (uint16_t)(oct[a] << 8), 0};
        snprintf(b, sizeof b, "%d.*", oct[a]); if (!expect_mask(b, n1, 104, true)) return false;
        uint16_t n2[8] = {0, 0, 0, 0, 0, 0xffff, (uint16_t)((oct[a] << 8) | oct[c]), 0};
        snprintf(b, sizeof b, "%d.%d.*", oct[a], oct[c]); if (!expect_mask(b, n2, 112, true)) return false;
        uint16_t n3[8] = {0, 0, 0, 0, 0, 0xffff, (uint16_t)((oct[a] << 8) | oct[c]), (uint16_t)(oct[a] << 8)};
        snprintf(b, sizeof b, "%d.%d.%d.*", oct[a], oct[c], oct[a]); if (!expect_mask(b, n3, 120, true)) return false;
        snprintf(b, sizeof b, "%d.%d.%d.**", oct[a], oct[c], oct[a]); if (!expect_mask(b, n3, 120, true)) return false;
    }
    // IPv6: full form /n, compressed x:y::/n, wildcards x:y:*
    static const uint16_t gv[] = {0x1, 0xf, 0x10, 0xff, 0x100, 0xfff, 0x1000, 0xffff, 0x2001, 0xdb8};
    const int NG = sizeof(gv) / sizeof(gv[0]);
    for (int i = 0; i < NG; i++) for (int j = 0; j < NG; j += 2) {
        for (int n = 0; n <= 136; n++) {
            uint16_t net[8] = {gv[i], gv[j], gv[(i + j) % NG], 0, gv[j], 0, 0, gv[i]};
            snprintf(b, sizeof b, "%x:%x:%x:0:%x:0:0:%x/%d", net[0], net[1], net[2], net[4], net[7], n);
            if (!expect_mask(b, net, n, n <= 128)) return false;
            uint16_t net2[8] = {gv[i], gv[j], 0, 0, 0, 0, 0, 0};
            snprintf(b, sizeof b, "%x:%x::/%d", gv[i], gv[j], n);
            if (!expect_mask(b, net2, n, n <= 128)) return false;
            if (n <= 128) {
                snprintf(b, sizeof b, "%x:%x::/%03d", gv[i], gv[j], n);
                if (!expect_mask(b, net2, n, true)) return false;
                snprintf(b, sizeof b, "%x:%x::/0%d", gv[i], gv[j], n);
                if (!expect_mask(b, net2, n, true)) return false;
            }
        }
        for (int k = 1; k <= 7; k++) {
            uint16_t net[8] = {0, 0, 0, 0, 0, 0, 0, 0};
            std::string t;
            for (int q = 0; q < k; q++) { net[q] = (q % 2) ? gv[j] : gv[i]; snprintf(b, sizeof b, "%x:", net[q]); t += b; }
            if (!expect_mask(t + "*", net, 16 * k, true)) return false;
            // short form: the leading groups only, then the length ("2001:db8/32", like "192.168/16")
            if (k >= 2) {
                std::string sf = t.substr(0, t.size() - 1);
                static const int lens[] = {0, 1, 7, 16, 17, 32, 33, 48, 64, 96, 112, 127, 128};
                for (unsigned li = 0; li < sizeof(lens) / sizeof(lens[0]); li++)
                    if (!expect_mask(sf + "/" + std::to_string(lens[li]), net, lens[li], true)) return false;
            }
        }
    }
    // mixed notation: hex groups followed by a dotted quad, with all six groups written out or with "::" somewhere;
    // the expected bits come from inet_pton
    for (int i = 0; i < NG; i++) for (int a = 0; a < NO; a += 2) for (int c = 1; c < NO; c += 3) {
        const char *forms[] = {"%x:%x:%x:%x:%x:%x:%d.%d.%d.%d", "%x:%x:%x:%x:%x::%d.%d.%d.%d", "%x::%x:%d.%d.%d.%d", "0:0:0:0:0:%x:%d.%d.%d.%d", "%x:0:0:0:0:ffff:%d.%d.%d.%d"};
        for (int f = 0; f < 5; f++) {
            int j = (i + a + c) % NG;
            switch (f) {
            case 0: snprintf(b, sizeof b, forms[0], gv[i], gv[j], gv[(i + 1) % NG], gv[(j + 2) % NG], gv[(i + 3) % NG], gv[(j + 1) % NG], oct[a], oct[c], oct[c], oct[a]); break;
            case 1: snprintf(b, sizeof b, forms[1], gv[i], gv[j], gv[(i + 1) % NG], gv[(j + 2) % NG], gv[(i + 3) % NG], oct[a], oct[c], oct[c], oct[a]); break;
            case 2: snprintf(b, sizeof b, forms[2], gv[i], gv[j], oct[a], oct[c], oct[c], oct[a]); break;
            case 3: snprintf(b, sizeof b, forms[3], gv[i], oct[a], oct[c], oct[c], oct[a]); break;
            default: snprintf(b, sizeof b, forms[4], gv[i], oct[a], oct[c], oct[c], oct[a]); break;
            }
            struct in6_addr ia;
            if (inet_pton(AF_INET6, b, &ia) != 1) continue;
            uint16_t net[8];
            for (int q = 0; q < 8; q++) net[q] = (uint16_t)((ia.s6_addr[2 * q] << 8) | ia.s6_addr[2 * q + 1]);
            if (!expect_mask(b, net, 128, true)) return false;
        }
    }
    // fully zero-padded groups: texts of 40 characters and more
    for (int i = 0; i < NG; i++) for (int n = 0; n <= 128; n += (n < 8 || n > 120) ? 1 : 8) {
        uint16_t net[8] = {gv[i], 0xdb8, 0, 0, 0, 0, 0, gv[(i + 3) % NG]};
        snprintf(b, sizeof b, "%04x:%04x:%04x:%04x:%04x:%04x:%04x:%04x/%d", net[0], net[1], net[2], net[3], net[4], net[5], net[6], net[7], n);
        if (!expect_mask(b, net, n, true)) return false;
        snprintf(b, sizeof b, "%04x:%04x:%04x:%04x:%04x:%04x:%04x:%04x", net[0], net[1], net[2], net[3], net[4], net[5], net[6], net[7]);
        if (!expect_mask(b, net, 128, true)) return false;
        uint16_t m4[8] = {0, 0, 0, 0, 0, 0xffff, (uint16_t)((192 << 8) | 168), (uint16_t)((100 << 8) | (gv[i] & 255))};
        snprintf(b, sizeof b, "0000:0000:0000:0000:0000:ffff:192.168.100.%d", gv[i] & 255);
        if (!expect_mask(b, m4, 128, true)) return false;
    }
    // an IPv4 network or wildcard written after an IPv6 prefix: the length counts from the start of the 128 bits
    for (int a = 0; a < NO; a += 2) for (int c = 0; c < NO; c += 3) for (int n = 0; n <= 32; n++) {
        const char *pre[] = {"::ffff:", "0::ffff:", "0:0:0:0:0:ffff:"};
        for (int f = 0; f < 3; f++) {
            uint16_t net[8] = {0, 0, 0, 0, 0, 0xffff, (uint16_t)((oct[a] << 8) | oct[c]), (uint16_t)((oct[c] << 8) | oct[a])};
            if (f == 0) continue;      // a leading ':' cannot reach the daemon as one parameter; kept out of the grammar set
            snprintf(b, sizeof b, "%s%d.%d.%d.%d/%d", pre[f], oct[a], oct[c], oct[c], oct[a], n);
            if (!expect_mask(b, net, 96 + n, true)) return false;
            uint16_t w2[8] = {0, 0, 0, 0, 0, 0xffff, (uint16_t)((oct[a] << 8) | oct[c]), 0};
            snprintf(b, sizeof b, "%s%d.%d.*", pre[f], oct[a], oct[c]);
            if (n == 0 && !expect_mask(b, w2, 112, true)) return false;
        }
    }
    uint16_t z[8] = {0, 0, 0, 0, 0, 0, 0, 0};
    // the all-zero network written as a bare "::" (a configuration value may start with ':')
    for (int n = 0; n <= 136; n++) {
        snprintf(b, sizeof b, "::/%d", n);
        if (!expect_mask(b, z, n, n <= 128)) return false;
    }
    if (!expect_mask("::", z, 128, true)) return false;
    if (!expect_mask("*", z, 0, true)) return false;
    if (!expect_mask("***", z, 0, true)) return false;
    cls("grammar_masks");
    g_samples.push_back("ptonmask 10.1.1.10/17"); g_samples.push_back("ptonmask 2001:db8::/33");
    return true;
}

// hostile side: one string in all four modes; memory safety by ASan, agreement with inet_pton
static bool check_string(const std::string &s) {
    n_cases++;
    uint16_t out[8]; unsigned bits;
    unsigned plain = 0;
    for (int wb = 0; wb < 2; wb++) for (int at = 0; at < 2; at++) {
        unsigned n = pton_exact(s, wb, at, out, &bits);
        if (n > s.size()) return fail("pton " + esc(s), "returned " + std::to_string(n) + " > string length");
        if (!wb && !at) {
            plain = n;
            if (n && n == s.size()) {
                unsigned char raw[16]; bool std_ok;
                if (s.find(':') != std::string::npos) std_ok = inet_pton(AF_INET6, s.c_str(), raw) == 1;
                else { unsigned char v4[4]; std_ok = inet_pton(AF_INET, s.c_str(), v4) == 1; memset(raw, 0, 16); raw[10] = raw[11] = 0xff; memcpy(raw + 12, v4, 4); }
                if (std_ok) {
                    n_nontrivial++;
                    uint16_t want[8]; for (int i = 0; i < 8; i++) want[i] = (raw[2 * i] << 8) | raw[2 * i + 1];
                    if (memcmp(want, out, sizeof want)) return fail("pton " + esc(s), "irc_pton reads it as " + hexgroups(out) + ", inet_pton as " + hexgroups(want));
                    // idempotence of print o parse on accepted plain addresses
                    if (!check_ntop(out)) return false;
                }
            }
        }
    }
    (void)plain;
    return true;
}
static const char ALPHA[] = "0123456789af:./* ";   // 17 symbols
static bool mode_pton_strings(int maxlen, int shard, int nshards) {
    const int NA = sizeof(ALPHA) - 1;
    std::string s;
    long idx = 0;
    std::function<bool(int)> rec = [&](int depth) -> bool {
        if (depth > 0) { if (idx++ % nshards == shard) { if (!check_string(s)) return false; } }
        if (depth == maxlen) return true;
        for (int i = 0; i < NA; i++) { s.push_back(ALPHA[i]); if (!rec(depth + 1)) return false; s.pop_back(); }
        return true;
    };
    bool ok = rec(0);
    cls("strings_up_to_len");
    g_samples.push_back("pton 1::/*"); g_samples.push_back("pton 9.9.*");
    return ok;
}

// ---------------------------------------------------------------- random (rapidcheck)
#ifndef ADDR_FUZZ
static rc::Gen<std::vector<uint16_t>> gen_groups() {
    auto g = rc::gen::oneOf(rc::gen::just<uint16_t>(0), rc::gen::just<uint16_t>(0), rc::gen::just<uint16_t>(0xffff),
                            rc::gen::map(rc::gen::inRange(0, 16), [](int v) { return (uint16_t)v; }),
                            rc::gen::map(rc::gen::inRange(0, 65536), [](int v) { return (uint16_t)v; }));
    return rc::gen::container<std::vector<uint16_t>>(8, g);
}
static bool mode_random12() {
    bool ok = rc::check("C12 round trip on random addresses", [] {
        std::vector<uint16_t> v = *gen_groups();
        uint16_t g[8]; for (int i = 0; i < 8; i++) g[i] = v[i];
        bool r = check_ntop(g);
        int runs = 0; bool in = false; for (int i = 0; i < 8; i++) { if (!g[i]) { if (!in) { runs++; in = true; } } else in = false; }
        if (runs >= 2) n_nontrivial++;
        if (!r) RC_FAIL(g_fail_msg);
    });
    cls("random_addresses");
    return ok;
}
// alternative renderings of an address that the plain parser must accept, then idempotence
static bool mode_idem() {
    bool ok = rc::check("C12 parse(alternative text) then print is idempotent", [] {
        std::vector<uint16_t> v = *gen_groups();
        uint16_t g[8]; for (int i = 0; i < 8; i++) g[i] = v[i];
        int style = *rc::gen::inRange(0, 4);
        bool upper = *rc::gen::arbitrary<bool>();
        int pad = *rc::gen::inRange(0, 2);
        int tail4 = *rc::gen::inRange(0, 3) == 0;
        // choose a zero run to compress (style 1..3), if any
        std::vector<std::pair<int, int>> runs; int st = -1;
        for (int i = 0; i <= 8; i++) { if (i < 8 && g[i] == 0) { if (st < 0) st = i; } else if (st >= 0) { runs.push_back({st, i - st}); st = -1; } }
        int cs = -1, cl = 0;
        if (style > 0 && !runs.empty()) { auto r = runs[(style - 1) % runs.size()]; cs = r.first; cl = r.second; if (tail4 && cs + cl > 6) { cl = 6 - cs; if (cl <= 0) cs = -1; } }
        std::string t; char b[16];
        int lim = tail4 ? 6 : 8;
        for (int i = 0; i < lim; i++) {
            if (i == cs) { t += (i == 0) ? "0::" : ":"; if (i == 0) { /* '0::' keeps the text from starting with ':' and consumes one zero */ }
                i += cl - 1; if (i + 1 >= lim && !tail4) { } continue; }
            snprintf(b, sizeof b, pad ? (upper ? "%04X" : "%04x") : (upper ? "%X" : "%x"), g[i]);
            t += b; if (i < lim - 1) t += ":";
        }
        if (cs == 0 && cl == 1) RC_DISCARD("single leading zero group cannot be abbreviated");
        if (tail4) { if (!t.empty() && t.back() != ':') t += ":"; snprintf(b, sizeof b, "%d.%d.%d.%d", g[6] >> 8, g[6] & 255, g[7] >> 8, g[7] & 255); t += b; }
        // the standard parser decides whether this rendering is a valid address text
        unsigned char raw[16];
        if (inet_pton(AF_INET6, t.c_str(), raw) != 1) RC_DISCARD("rendering not accepted by inet_pton");
        uint16_t want[8]; for (int i = 0; i < 8; i++) want[i] = (raw[2 * i] << 8) | raw[2 * i + 1];
        n_cases++;
        uint16_t out[8]; unsigned bits;
        unsigned n = pton_exact(t, false, 0, out, &bits);
        if (n != t.size()) { fail("pton " + esc(t), "plain parser rejects (returns " + std::to_string(n) + ") a text inet_pton accepts"); RC_FAIL(g_fail_msg); }
        if (memcmp(out, want, sizeof out)) { fail("pton " + esc(t), "irc_pton reads it as " + hexgroups(out) + ", inet_pton as " + hexgroups(want)); RC_FAIL(g_fail_msg); }
        n_nontrivial++;
        if (!check_ntop(out)) RC_FAIL(g_fail_msg);
        if (g_samples.size() < 3 && n_cases % 501 == 3) g_samples.push_back("pton " + t);
    });
    cls("alternative_renderings");
    return ok;
}
static bool mode_random13() {
    bool ok2 = rc::check("C13 mask test on random triples", [] {
        std::vector<uint16_t> a = *gen_groups(), d = *gen_groups();
        unsigned bits = *rc::gen::resize(200, rc::gen::inRange(0, 129));
        int keep = *rc::gen::resize(200, rc::gen::inRange(0, 129));   // differences only after bit `keep` (multi-group)
        uint16_t c[8], m[8];
        for (int i = 0; i < 8; i++) {
            m[i] = a[i]; uint16_t x = d[i];
            int lo = 16 * i;
            if (keep >= lo + 16) x = 0; else if (keep > lo) x &= (uint16_t)(0xffff >> (keep - lo));
            c[i] = a[i] ^ x;
        }
        bool r = check_mask(c, m, bits);
        n_nontrivial++;
        if (!r) RC_FAIL(g_fail_msg);
    });
    cls("random_triples");
    return ok2;
}
#endif

// ---------------------------------------------------------------- replay
static bool parse_groups(const std::string &t, uint16_t g[8]) {
    unsigned v[8];
    if (sscanf(t.c_str(), "%x:%x:%x:%x:%x:%x:%x:%x", &v[0], &v[1], &v[2], &v[3], &v[4], &v[5], &v[6], &v[7]) != 8) return false;
    for (int i = 0; i < 8; i++) g[i] = (uint16_t)v[i];
    return true;
}
static std::string unesc(const std::string &s) {
    std::string o;
    for (size_t i = 0; i < s.size(); i++) {
        if (s[i] == '\\' && i + 3 < s.size() && s[i + 1] == 'x') { o += (char)strtol(s.substr(i + 2, 2).c_str(), NULL, 16); i += 3; }
        else o += s[i];
    }
    return o;
}
static bool replay_line(const std::string &line) {
    std::istringstream is(line); std::string kind; is >> kind;
    if (kind == "ntop") { std::string t; is >> t; uint16_t g[8]; if (!parse_groups(t, g)) return true; return check_ntop(g); }
    if (kind == "mask") { std::string a, b; unsigned bits; is >> a >> b >> bits; uint16_t c[8], m[8]; parse_groups(a, c); parse_groups(b, m); return check_mask(c, m, bits); }
    if (kind == "pton") { std::string rest; std::getline(is, rest); if (!rest.empty()) rest = rest.substr(1); return check_string(unesc(rest)); }
    if (kind == "ptonmask") { return true; }   // grammar cases are re-derived by mode grammar
    return true;
}

#ifdef ADDR_FUZZ
extern "C" int LLVMFuzzerTestOneInput(const uint8_t *data, size_t size) {
    static bool inited = false;
    if (!inited) { ctype_init(); inited = true; }
    std::string s((const char *)data, size);
    if (s.find('\0') != std::string::npos) s = s.substr(0, s.find('\0'));
    g_fail_msg.clear();
    if (!check_string(s)) {
        fprintf(stderr, "ORACLE-FAIL: %s :: %s\n", g_fail_case.c_str(), g_fail_msg.c_str());
        __builtin_trap();
    }
    return 0;
}
#else
int main(int argc, char **argv) {
    std::string mode = argc > 1 ? argv[1] : "";
    bool ok = true;
    ctype_init();
    int shard = argc > 3 ? atoi(argv[3]) : 0, nshards = argc > 4 ? atoi(argv[4]) : 1;
    const char *failpath = getenv("ADDR_FAIL_PATH");
    if (mode == "ntop_patterns") ok = mode_ntop_patterns(argc > 2 ? atoi(argv[2]) : 0, argc > 3 ? atoi(argv[3]) : 1);
    else if (mode == "ntop_v4") ok = mode_ntop_v4();
    else if (mode == "mask_exhaust") ok = mode_mask_exhaust(argc > 2 ? atoi(argv[2]) : 0, argc > 3 ? atoi(argv[3]) : 1);
    else if (mode == "pton_grammar") ok = mode_pton_grammar();
    else if (mode == "pton_strings") ok = mode_pton_strings(atoi(argv[2]), shard, nshards);
    else if (mode == "random12") ok = mode_random12();
    else if (mode == "random13") ok = mode_random13();
    else if (mode == "idem") ok = mode_idem();
    else if (mode == "replay") {
        std::ifstream f(argv[2]); std::string line;
        while (std::getline(f, line)) { if (line.empty() || line[0] == '#') continue; if (!replay_line(line)) { ok = false; break; } }
        if (!ok) printf("FAIL: %s\n", g_fail_msg.c_str());
    } else { fprintf(stderr, "usage\n"); return 2; }
    if (!ok && failpath) { std::ofstream f(failpath); f << g_fail_case << "\n# " << g_fail_msg << "\n"; }
    std::string s;
    for (auto &x : g_samples) { if (!s.empty()) s += ","; s += "\"" + x + "\""; }
    std::string c;
    for (auto &kv : g_classes) { if (!c.empty()) c += ","; c += "\"" + kv.first + "\":" + std::to_string(kv.second); }
    printf("{\"mode\":\"%s\",\"ok\":%s,\"cases\":%ld,\"nontrivial\":%ld,\"classes\":{%s},\"samples\":[%s]}\n",
           mode.c_str(), ok ? "true" : "false", n_cases, n_nontrivial, c.c_str(), s.c_str());
    return ok ? 0 : 1;
}
#endif
