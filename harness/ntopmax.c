/* exports the repository's documented buffer size so that the C++ harness need not include iauth.h */
#include "modules/iauth.h"
const unsigned int verif_irc_ntop_max = IRC_NTOP_MAX;
