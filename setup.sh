#!/bin/sh
# Offline setup: check tools, pre-build everything that does not depend on /repo
# (cached rapidcheck driver objects) and warm the /repo-dependent build cache.
set -e
cd "$(dirname "$0")"
command -v python3-vt >/dev/null || { echo "python3-vt missing" >&2; exit 2; }
command -v gcc >/dev/null || { echo "gcc missing" >&2; exit 2; }
python3-vt lib/setup_all.py
