#!/bin/sh
# usage: sweep_thorough.sh <seed> [ids...]   - run thorough checks at one seed, one line per run
s="$1"; shift
ids="${*:-C01 C02 C03 C04 C05 C06 C07 C08 C09 C10 C11 C12 C13 C14 C15 C16 C17 C18 C19 C20}"
for id in $ids; do
  out=$(VERIF_SEED=$s ./check $id thorough 2>&1); rc=$?
  echo "seed=$s $id rc=$rc $(echo "$out" | grep -E "^(VIOLATION|KNOWN-FINDING|MACHINERY|WORKER-ERROR)" | head -3 | tr '\n' ' ') | $(echo "$out" | tail -1)"
done
