#!/bin/sh
# usage: mkworktree.sh <dir>   - scratch worktree of /repo HEAD with the (untracked) autotools scaffolding, configured and built
set -e
d="$1"
git -C /repo worktree add -q "$d" HEAD
cd "$d"
cp -a /repo/configure /repo/Makefile.in /repo/aclocal.m4 /repo/autoconf /repo/autoconf.h.in .
./configure -q >/dev/null 2>&1
make -j8 >/dev/null 2>&1
make check >/dev/null 2>&1 && echo "worktree $d ready (make check passes)"
