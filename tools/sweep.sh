#!/bin/sh
# usage: sweep.sh <tier> <seed>...   - run every check at the given seeds, print one line per run
tier="$1"; shift
for s in "$@"; do
  for id in C01 C02 C03 C04 C05 C06 C07 C08 C09 C10 C11 C12 C13 C14 C15 C16 C17 C18 C19 C20; do
    out=$(VERIF_SEED=$s ./check $id $tier 2>&1); rc=$?
    echo "seed=$s $id rc=$rc $(echo "$out" | grep -E "^(VIOLATION|KNOWN-FINDING|MACHINERY|WORKER-ERROR)" | head -3 | tr '\n' ' ') | $(echo "$out" | tail -1)"
  done
done
