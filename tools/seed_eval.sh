#!/bin/sh
# usage: seed_eval.sh <worktree> <mutant-dir> <ID> [tier]
# confirm the seeded change in the scratch worktree, then run ./check <ID> against the patched worktree (VERIF_REPO)
wt="$1"; m="$2"; id="$3"; tier="${4:-quick}"
echo "### $m vs $id"
/verif/tools/confirm_seed.sh "$wt" "$m" || exit 2
cd "$wt" && git apply "$m/patch.diff" || exit 2
cd /verif && VERIF_REPO="$wt" ./check "$id" "$tier" 2>&1 | grep -v "^NOTE: [0-9]* case" | tail -8
cd "$wt" && git checkout -q -- .
