#!/usr/bin/env python3
"""archive_seed.py <ID> <mN> <detected: yes|no|quick-no-thorough-yes> <check-that-catches> <needs...>
Copies /tmp/seed/<ID>/_out/<mN> to /verif/seeded/<ID>-<mN>/ and writes meta.json."""
import json, os, shutil, sys, subprocess
pid, m, detected, by = sys.argv[1:5]
needs = " ".join(sys.argv[5:])
ROOT = os.environ.get("SEED_ROOT", "/tmp/seed")
TAG = os.environ.get("SEED_TAG", "")
src = "%s/%s/_out/%s" % (ROOT, pid, m)
dst = "/verif/seeded/%s-%s%s" % (pid, TAG, m)
if os.path.exists(dst):
    shutil.rmtree(dst)
shutil.copytree(src, dst)
log = "%s/results/%s-%s-%s.log" % (ROOT, pid, m, by)
if not os.path.exists(log):
    log = "%s/results/%s-%s.log" % (ROOT, pid, m)
ran = open(log).read() if os.path.exists(log) else ""
base = subprocess.run(["git", "-C", "%s/%s" % (ROOT, pid), "rev-parse", "--short", "HEAD"], stdout=subprocess.PIPE).stdout.decode().strip()
meta = {
    "property": pid,
    "breaks": open(os.path.join(src, "README.txt")).read()[:1500] if os.path.exists(os.path.join(src, "README.txt")) else "",
    "needs_to_manifest": needs,
    "base_commit_of_patch": base,
    "confirmed": "in scratch worktree " + ROOT + "/%s: clean tree -> demo PASS; patch applied -> `make check` 89/89 pass, demo FAIL (tools/confirm_seed.sh)" % pid,
    "what_i_ran": "tools/seed_eval.sh: VERIF_REPO=<patched scratch worktree> ./check %s quick" % by,
    "detected": detected,
    "detected_by": by,
    "check_output": [l for l in ran.splitlines() if not l.startswith("NOTE")][-8:],
}
json.dump(meta, open(os.path.join(dst, "meta.json"), "w"), indent=1)
print("archived", dst)
