#!/usr/bin/env python3
"""mktask.py <ID> <worktree> : writes <worktree>/TASK.md for a mutation sub-agent (round 2).
Contains only the property text, generic instructions and the list of earlier seeded
changes to avoid - nothing about the verification machinery."""
import glob, json, os, sys
pid, wt = sys.argv[1], sys.argv[2]
props = {json.loads(l)["id"]: json.loads(l) for l in open("/verif/properties.jsonl")}
p = props[pid]
prior = []
for d in sorted(glob.glob("/verif/seeded/%s-*" % pid)):
    m = json.load(open(os.path.join(d, "meta.json")))
    prior.append("- " + m["needs_to_manifest"])
HINTS = {
 "daemon": "The daemon: `./src/iauthd-c -n -f <conf>` reads IAuth protocol lines from the ircd on stdin (must be a pipe, not a regular file) and writes replies to stdout; SIGUSR1 re-reads the config; `-1 ? config` / `-1 ? stats` report state. See README, doc/iauthd-c.conf.example, modules/iauth_core.c, modules/iauth_xquery.c, modules/iauth_class.c, modules/iauth_misc.c, tests/code-coverage.pl, tests/coverage-1.conf. In a config use `core { library_path ( \"modules/.libs\" ); modules ( iauth_class, iauth_xquery ); };` and e.g. `iauth { timeout 2 }`.",
 "unit": "A demonstration can be a small C program compiled against the sources (e.g. `gcc -I. -DHAVE_CONFIG_H demo.c src/config.c src/log.c src/set.c src/common.c src/bitset.c modules/iauth_misc.c stubs.c -levent` - pick the files you need; provide stubs for log_message / log_type_register / log_core / module_close_all / ev_base / ev_dns / clean_exit when you leave out log.c / main.c / module.c; call ctype_init() first). Memory errors may be shown with -fsanitize=address or valgrind (installed). For module loading (src/module.c) build tiny stub modules with `gcc -shared -fPIC -I.` and run `./src/iauthd-c -k -n -f conf`.",
}
kind = "daemon" if pid in ("C01","C02","C03","C04","C05","C06","C07","C08","C09","C10","C11","C17") else "unit"
txt = """# Task

You are helping evaluate a test suite by mutation. Work ONLY inside this scratch git worktree (%(wt)s), a checkout of the C project UndernetIRC/iauthd-c (an ircu IAuth daemon); it is already configured and built; `make check` runs the existing 89-assertion test suite and currently passes. Do NOT read or touch /verif or /repo, and do not look outside this worktree except for system headers/tools. No network is available. After editing sources run `make`.

%(hint)s

## Property %(pid)s - %(title)s

%(statement)s

Quantified over: %(quant)s

Code the property is anchored in: %(files)s

## What to produce

Produce up to TWO different, realistic source changes (the kind of bug a maintainer could plausibly introduce in a refactoring, optimisation or feature patch), each of which BREAKS this property while the project still compiles and `make check` still passes (all 89 assertions). The change must need something SPECIFIC to manifest - a particular interleaving or order of events, a fault/timeout at a particular point, a multi-step sequence, an unusual but legal input, a boundary value, or two cooperating code sites that each look fine alone - NOT something ordinary use would expose at once, and preferably something a randomized tester that throws random event sequences / random inputs at the code would be unlikely to reach without being built for it (a rare boundary value, a long or oddly shaped input, a three-step history, a dependence on names or ordering, an interaction with a reload or a timer, a rarely used option or shared helper in src/*.c). If at all possible, make ONE of your two changes in shared infrastructure (src/config.c, src/set.c, src/common.c, src/log.c, src/bitset.c, src/module.c, src/main.c, or a helper in modules/iauth_misc.c / modules/iauth_core.c that other code relies on) rather than in the function the property most obviously lives in, so that the property breaks indirectly. Do not modify files under tests/. Keep each change small (a few lines).

Earlier rounds already produced changes that manifest under the following conditions; do NOT repeat those ideas, find different code sites and different triggering conditions:
%(prior)s

For each change N (1, 2) create directory %(wt)s/_out/mN/ containing:
 - patch.diff : output of `git diff` for that change alone, relative to the clean worktree HEAD (must apply cleanly with `git apply` on a clean tree);
 - demo.sh (plus any helper files it needs; may use python3/perl/sh/C) : a self-contained demonstration run from the worktree root that exits 0 and prints PASS when the property holds on its scenario and exits 1 and prints FAIL when it is violated. It must FAIL with the patch applied (after `make`) and PASS on the clean tree.
 - README.txt : which lines you changed, why it breaks the property, and exactly what is needed for the violation to manifest (first line: a one-sentence summary of the trigger).

Verify all of it yourself: clean tree -> make -> demo PASS; apply patch -> make -> `make check` passes -> demo FAIL. Leave the worktree CLEAN (`git checkout -- . ; make`) when you finish, keeping only the untracked _out/ directory and this TASK.md. Finish by reporting briefly what you produced and the verification results.
""" % {"wt": wt, "hint": HINTS[kind], "pid": pid, "title": p["title"], "statement": p["statement"], "quant": p["quantifier"]["text"],
       "files": ", ".join(p["anchors"]["files"]), "prior": "\n".join(prior) or "- (none)"}
open(os.path.join(wt, "TASK.md"), "w").write(txt)
print("wrote", os.path.join(wt, "TASK.md"))
