#!/bin/sh
# usage: confirm_seed.sh <worktree> <mutant-dir>
# Confirms in the scratch worktree: clean -> demo PASS; patched -> make check passes, demo FAIL.
wt="$1"; m="$2"
cd "$wt" || exit 2
git checkout -q -- . ; make >/dev/null 2>&1
sh "$m/demo.sh" >/tmp/seed_demo_clean.log 2>&1; c=$?
git apply "$m/patch.diff" || { echo "PATCH-DOES-NOT-APPLY"; exit 2; }
make >/dev/null 2>&1 || { echo "BUILD-FAILS"; git checkout -q -- .; exit 2; }
mc=$(make check 2>&1 | grep -E "^# (PASS|FAIL):" | tr '\n' ' ')
sh "$m/demo.sh" >/tmp/seed_demo_patched.log 2>&1; p=$?
git checkout -q -- . ; make >/dev/null 2>&1
echo "clean-demo-exit=$c patched-demo-exit=$p make-check: $mc"
