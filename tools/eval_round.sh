#!/bin/sh
# usage: eval_round.sh <root> Cxx[:Cyy] ...   - evaluate <root>/Cxx/_out/m1,m2 against check Cyy (default: own property)
# via tools/seed_eval.sh; logs in <root>/results/
root="$1"; shift
mkdir -p "$root/results"
for spec in "$@"; do
  id=${spec%%:*}; chk=${spec##*:}
  for m in m1 m2; do
    [ -d "$root/$id/_out/$m" ] || continue
    /verif/tools/seed_eval.sh "$root/$id" "$root/$id/_out/$m" "$chk" > "$root/results/$id-$m-$chk.log" 2>&1
    echo "== $id $m vs $chk: $(grep -c '^VIOLATION' "$root/results/$id-$m-$chk.log") violation lines; $(grep 'clean-demo-exit' "$root/results/$id-$m-$chk.log"); $(tail -1 "$root/results/$id-$m-$chk.log")"
  done
done
