#!/bin/sh
# usage: try_seed.sh <patch.diff> <ID> [tier]   - apply to /repo, run the check, revert
p="$1"; id="$2"; tier="${3:-quick}"
git -C /repo apply "$p" || { echo "PATCH-DOES-NOT-APPLY to /repo"; exit 2; }
cd /verif && ./check "$id" "$tier" 2>&1 | grep -v "^NOTE: [0-9]* case" | tail -${4:-6}
git -C /repo checkout -- .
