#!/usr/bin/env python3
"""Re-run every archived seeded change against the current checks.
usage: reseed_all.py <nstreams> <stream-index> [tier]
Each stream uses its own scratch worktree of /repo HEAD (VERIF_REPO), applies seeded/<x>/patch.diff,
runs the check(s) named in meta.json 'detected_by', records the outcome in seeded/<x>/meta.json."""
import glob, json, os, subprocess, sys
n, k = int(sys.argv[1]), int(sys.argv[2])
tier = sys.argv[3] if len(sys.argv) > 3 else "quick"
wt = "/tmp/reseed/w%d" % k
os.makedirs("/tmp/reseed", exist_ok=True)
if not os.path.exists(wt):
    subprocess.run(["/verif/tools/mkworktree.sh", wt], check=True, stdout=subprocess.DEVNULL)
dirs = sorted(glob.glob("/verif/seeded/*/"))
skip = set()
if os.environ.get("RESEED_DONE") and os.path.exists(os.environ["RESEED_DONE"]):
    skip = {l.split()[0] for l in open(os.environ["RESEED_DONE"]) if l.strip()}
dirs = [d for d in dirs if os.path.basename(d.rstrip("/")) not in skip]
for i, d in enumerate(dirs):
    if i % n != k:
        continue
    meta_p = os.path.join(d, "meta.json")
    meta = json.load(open(meta_p))
    subprocess.run(["git", "-C", wt, "reset", "-q", "--hard"])
    r = subprocess.run(["git", "-C", wt, "apply", os.path.join(d, "patch.diff")], stderr=subprocess.PIPE)
    if r.returncode != 0:
        r = subprocess.run(["git", "-C", wt, "apply", "--3way", os.path.join(d, "patch.diff")], stderr=subprocess.PIPE)
    if r.returncode != 0:
        subprocess.run(["git", "-C", wt, "reset", "-q", "--hard"])
        meta["rerun"] = {"applies_to_head": False, "note": r.stderr.decode()[-300:]}
        json.dump(meta, open(meta_p, "w"), indent=1)
        print(os.path.basename(d.rstrip("/")), "PATCH DOES NOT APPLY")
        continue
    results = {}
    for pid in [x.strip() for x in meta["detected_by"].split(",")]:
        env = dict(os.environ, VERIF_REPO=wt)
        p = subprocess.run(["/verif/check", pid, tier], stdout=subprocess.PIPE, stderr=subprocess.STDOUT, env=env, cwd="/verif")
        out = p.stdout.decode(errors="replace").splitlines()
        results[pid] = {"exit": p.returncode, "lines": [l for l in out if l.startswith("VIOLATION") or l.startswith("  ")][:4] + out[-1:]}
    subprocess.run(["git", "-C", wt, "reset", "-q", "--hard"])
    meta["rerun"] = {"applies_to_head": True, "tier": tier, "results": results,
                     "caught": any(v["exit"] == 1 for v in results.values())}
    if any(v["exit"] not in (0, 1) for v in results.values()):
        print(os.path.basename(d.rstrip("/")), "MACHINERY ERROR", results)
    json.dump(meta, open(meta_p, "w"), indent=1)
    print(os.path.basename(d.rstrip("/")), "caught" if meta["rerun"]["caught"] else "MISSED", {k2: v["exit"] for k2, v in results.items()})
