#!/usr/bin/env python3-vt
"""Run one E-proto case file (or the sample in an evidence file) and print the trace."""
import json, os, sys
sys.path.insert(0, os.path.join(os.path.dirname(os.path.abspath(__file__)), "..", "lib"))
import eng_proto as ep, vcommon as vc
case = json.load(open(sys.argv[1]))
if "coverage" in case:
    case = case["coverage"]["samples"][int(sys.argv[2]) if len(sys.argv) > 2 else 0]
tr = ep.run_lockstep(case, os.path.join(vc.case_root(), "c"))
print("\n".join(tr.banner))
for i, (line, out, in_use) in enumerate(tr.steps):
    print("%3d > %s" % (i, line[:200]))
    for o in out:
        print("      < %s" % o[:200])
    print("      in_use=%s" % in_use)
print("rc", tr.rc, "died", tr.died, "rest", tr.rest)
print(tr.stderr[:3000])
for v in tr.spec.viol:
    print("VIOL", v)
vc.cleanup_case_root()
