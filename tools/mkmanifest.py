#!/usr/bin/env python3
"""Regenerates MANIFEST.json from the table below (kept next to the registry)."""
import json
import os
import subprocess

V = os.path.dirname(os.path.dirname(os.path.abspath(__file__)))

HOOK_COMMITS = ["0e73fd7"]

# id -> (engine, technique, level text, level note, design ref)
CHECKS = {
 "C01": ("E-proto", "property-based testing (Hypothesis): generated multi-client histories vs. trace invariant on the real daemon",
         "Generated-input search: thousands of shrunk-on-failure event histories with id reuse, re-announcement, withdrawals and late/stale events are run in lock-step against the ASan/UBSan daemon; a trace monitor checks at-most-one verdict / soft-done per instance and silence after an instance ended. Finds violations inside the generated bounds, proves nothing beyond them.",
         "trusts lock-step attribution via the '-1 ? stats2' barrier, libevent, sanitizer runtimes; history length <= ~80 events, <= 6 clients per history", "5 C01"),
 "C02": ("E-proto", "property-based testing (Hypothesis): histories x timeout-hook schedule points vs. acceptance-time invariant",
         "Every D/R line is judged against a reference model of delivered data, outstanding queries, expired timeout and +! requirement built only from the input/output trace; the guarded hook makes the timer-vs-input order a generated choice.",
         "the hook fires the timer handler as libevent would; real-time firing only sampled in the thorough tier", "5 C02"),
 "C03": ("E-proto", "property-based testing (Hypothesis): histories weighted to over-released counters vs. per-step liveness invariant",
         "After every step every live instance is checked: if its data is complete, nothing is owed (or the debt predates an expired timeout) and +! is met, a verdict must already have been emitted.",
         "as C02; a debt incurred after the timeout expired is deliberately not excused (lenient reading)", "5 C03"),
 "C05": ("E-proto", "property-based testing (Hypothesis): reply kinds x service types x texts vs. per-step relation reply -> output",
         "Per-step oracle relating the delivered reply to the lines it causes: NO text verbatim in k, MORE/AGAIN verbatim in C to that client only, R account vouched by an awaited login-capable service for this instance, +x when asked.",
         "stamps offered by 'combined' services accepted either way (doc and code disagree)", "5 C05"),
 "C06": ("E-proto", "property-based testing (Hypothesis): data arrival orders x boundary-length fields vs. prerequisite model and exact query text",
         "Reference model of per-protocol prerequisites decides in which step each first query must appear; query text is rebuilt from the values the server reported (truncation, ~ marker, address).",
         "re-queries are only allowed in password steps; field alphabets printable ASCII", "5 C06"),
 "C10": ("E-proto", "property-based testing (Hypothesis): long histories vs. live-count model at every step + LeakSanitizer at exit",
         "The daemon's own 'in use' counter is compared with the model's live set after every input line; end of input must give exit 0 with an empty ASan/LSan report.",
         "timer-after-free only observable with real timers (thorough tier)", "5 C10"),
}

PENDING = {
}

ENGINES = [
 {"name": "E-proto", "path": "lib/eng_proto.py", "serves_properties": ["C01", "C02", "C03", "C05", "C06", "C10"],
  "kind_free_text": "Hypothesis generators for configurations and event histories; real ASan/UBSan daemon driven over stdin/stdout/SIGUSR1 in lock-step (lib/daemon.py); reference model and monitors in lib/proto.py"},
]


def main():
    props = [json.loads(l)["id"] for l in open(os.path.join(V, "properties.jsonl"))]
    checks = []
    for pid in props:
        if pid not in CHECKS:
            continue
        eng, tech, text, note, ref = CHECKS[pid]
        checks.append({
            "property_id": pid,
            "quick_cmd": "./check %s quick" % pid,
            "thorough_cmd": "./check %s thorough" % pid,
            "evidence_file": "evidence/%s.json" % pid,
            "replay_cmd_template": "./check %s --replay {path}" % pid,
            "engine": eng,
            "level_claimed": {"category": "exploration", "text": text, "design_ref": "DESIGN.md section " + ref},
            "level_note": note,
            "technique": tech,
        })
    na = [{"property_id": pid, "reason": PENDING.get(pid, "check not built yet in this round (planned: see DESIGN.md); nothing is claimed for it")}
          for pid in props if pid not in CHECKS]
    m = {
        "version": 1,
        "setup_cmd": "./setup.sh",
        "hooks": {
            "guard": "IAUTHD_C_VERIF",
            "enable": "checks compile /repo's working tree directly with gcc/clang -DIAUTHD_C_VERIF (lib/vcommon.py); the autotools tree in /repo is never touched",
            "baseline_off_cmd": "cd /repo && make check",
            "source_commits": HOOK_COMMITS,
            "add_only": True,
        },
        "engines": ENGINES,
        "checks": checks,
        "not_applicable": na,
        "notes": "Exit 0 = property held on everything explored (KNOWN-FINDING lines possible); exit 1 = VIOLATION line(s); exit 2 = the machinery itself failed (never a verdict). known_findings.json lists fixed/known defects; regress/<id>/ holds their replay inputs.",
    }
    with open(os.path.join(V, "MANIFEST.json"), "w") as fh:
        json.dump(m, fh, indent=1)
        fh.write("\n")
    try:
        subprocess.run(["python3-vt", "-c",
                        "import json,jsonschema;jsonschema.validate(json.load(open('%s/MANIFEST.json')),json.load(open('/root/.vp/MANIFEST.schema.json')));print('MANIFEST ok')" % V], check=True)
    except Exception as e:
        print("validation failed", e)


main()
